"""C11 — enumeration of (dialect, schema, instances) cases from the grammar in DESIGN.md §4 C11.

Pure stdlib, deterministic.  Schemas are Python values (dict keeps member order, which is real for ojson).
Only the unambiguous core vocabulary is generated: no format, no content*, no remote references, no
$dynamicRef/$recursiveRef, patterns only from {^a, b$, a+}, numeric limits / multipleOf only with values that
are exact in binary64, `definitions` only in drafts 4-7 and `$defs` only in 2019-09/2020-12.

Sets (per dialect d):
  A    every leaf alone
  D1   every template over the operand leaves B (|B| = 8; if/then/else over 4); templates include $ref to
       definitions/$defs, to a plain-name anchor, to "#" and to the location of a subschema under each applicator
  K1   core templates over B3 (unary) / B2 (binary)                      -- operands of depth 2
  D2   every unary template (except the refloc_* ones) over K1, core binary templates over K1xB2 u B2xK1
  UE1  {X, unevaluatedProperties:U}, X = in-place applicator (allOf anyOf oneOf not if/then/else $ref
       dependentSchemas) over property-annotating atoms PA                 (2019-09, 2020-12)
  UI1  same for unevaluatedItems over item-annotating atoms IA
 thorough only:
  D2T  core binary templates over K1 x K1
  D3   core unary templates over D2core (= core unary over K1, core binary over K1xB2 u B2xK1)
  UX   child-location applicators (properties, patternProperties, prefixItems, contains) whose subschema annotates the
       child, next to unevaluated* at the parent: annotations must not cross instance locations
  UE2/UI2  X of in-place depth 2 (one operand an in-place combination of 4 atoms)
Nested templates are made consistent by fixrefs() (pointer rewriting / hoisting of definitions, unique anchors).
"""
import itertools, json

DIALECTS = ["4", "6", "7", "2019", "2020"]
NEW = ("2019", "2020")
SCHEMA_URI = {
    "4": "http://json-schema.org/draft-04/schema#",
    "6": "http://json-schema.org/draft-06/schema#",
    "7": "http://json-schema.org/draft-07/schema#",
    "2019": "https://json-schema.org/draft/2019-09/schema",
    "2020": "https://json-schema.org/draft/2020-12/schema",
}
BIG = 2 ** 53


def T(d):
    return {} if d == "4" else True


def F(d):
    return {"not": {}} if d == "4" else False


def ge(d, v):
    return DIALECTS.index(d) >= DIALECTS.index(v)


def text(x):
    return json.dumps(x, ensure_ascii=False, separators=(",", ":"))


def hexs(x):
    return text(x).encode("utf-8").hex()


def defs_kw(d):
    return "$defs" if d in NEW else "definitions"


def as_obj(d, S):
    if S is True:
        return {}
    if S is False:
        return {"not": {}}
    return dict(S)


def merge(S, U):
    """Sibling keywords in one schema object; None unless both are objects with disjoint keys."""
    if not isinstance(S, dict) or not isinstance(U, dict) or not S or not U:
        return None
    if set(S) & set(U):
        return None
    r = dict(S)
    r.update(U)
    return r


def anchored(d, S, name):
    base = as_obj(d, S)
    key, val = ("$anchor", name) if d in NEW else (("id", "#" + name) if d == "4" else ("$id", "#" + name))
    if key in base or "$ref" in base or "id" in base or "$id" in base:
        return None
    r = {key: val}
    r.update(base)
    return r


def _frag(path):
    from urllib.parse import quote
    # percent-encode only what a URI fragment cannot contain literally (e.g. "^"); sub-delims such as "$" and "+" stay
    return "".join("/" + quote(str(k).replace("~", "~0").replace("/", "~1"), safe="$+!&'()*,;=:@") for k in path)


def fixrefs(d, schema):
    """Templates are written as if they were the document root.  Once nested, (1) "#/<defs>/x" has to become the JSON
    pointer of the definition inside the whole document (percent-encoded as a URI fragment) -- 2019-09/2020-12 --
    or, in drafts 4-7 where everything next to $ref is ignored (so a pointer into such a sibling is not clearly
    defined), the definition is hoisted into the root's `definitions`; (2) plain-name anchors are made unique."""
    dk = defs_kw(d)
    local = "#/%s/x" % dk
    akeys = ("$anchor", "$id", "id")
    counter = [0]
    hoisted = {}

    def walk(node, path):
        if isinstance(node, list):
            return [walk(v, path + (i,)) for i, v in enumerate(node)]
        if not isinstance(node, dict):
            return node
        out = {k: walk(v, path + (k,)) for k, v in node.items()}
        if out.get("$ref") == local and dk in node and path:
            if d in NEW:
                out["$ref"] = "#" + _frag(path) + "/%s/x" % dk
            else:
                name = "h%d" % (len(hoisted) + 1)
                hoisted[name] = out.pop(dk)["x"]
                out["$ref"] = "#/%s/%s" % (dk, name)
        x = node.get(dk, {}).get("x") if isinstance(node.get(dk), dict) else None
        if isinstance(x, dict) and dk in out:
            ak = next((k for k in akeys if x.get(k) in ("k", "#k")), None)
            if ak is not None:
                counter[0] += 1
                name = "k%d" % counter[0]
                out[dk]["x"][ak] = name if ak == "$anchor" else "#" + name
                if out.get("$ref") == "#k":
                    out["$ref"] = "#" + name
                elif isinstance(out.get("allOf"), list) and out["allOf"] and out["allOf"][0] == {"$ref": "#k"}:
                    out["allOf"][0] = {"$ref": "#" + name}
        return out
    if not isinstance(schema, dict):
        return schema
    r = walk(schema, ())
    if hoisted:
        defs = dict(r.get(dk, {}))
        defs.update(hoisted)
        r[dk] = defs
    return r


def prefix_kw(d):
    return "prefixItems" if d == "2020" else "items"


# ---------------------------------------------------------------------------- leaves

def leaves(d):
    L = [T(d), F(d)]
    if d != "4":
        L.append({})
    for t in ["null", "boolean", "integer", "number", "string", "array", "object"]:
        L.append({"type": t})
    L.append({"type": ["integer", "string"]})
    L.append({"type": ["number", "null"]})
    L += [{"enum": [1]}, {"enum": [1, "a"]}, {"enum": [[1], {"a": 1}]}, {"enum": [0, None]}, {"enum": [{"a": 1, "b": "x"}]},
          {"enum": [[{"a": 1, "b": 2}], 3]}, {"enum": [{"k": [{"a": 1, "b": 2}]}]}]
    if d != "4":
        L += [{"const": 1}, {"const": 1.0}, {"const": 0}, {"const": "a"}, {"const": {"a": 1}}, {"const": [1]},
              {"const": None}, {"const": True}, {"const": {"a": 1, "b": "x"}}, {"const": [{"a": 1, "b": 2}]}, {"const": [[{"a": 1, "b": 2}], 1.0]}]
    L += [{"minimum": 1}, {"maximum": 1}, {"minimum": 2.5}, {"maximum": 2.5}, {"minimum": 1.0},
          {"maximum": BIG}, {"minimum": BIG + 2}, {"minimum": BIG}, {"maximum": BIG + 2}]
    if d == "4":
        L += [{"minimum": 1, "exclusiveMinimum": True}, {"maximum": 1, "exclusiveMaximum": True},
              {"minimum": 1, "exclusiveMinimum": False}, {"maximum": 2.5, "exclusiveMaximum": True},
              {"maximum": BIG + 2, "exclusiveMaximum": True}, {"minimum": BIG, "exclusiveMinimum": True}]
    else:
        L += [{"exclusiveMinimum": 1}, {"exclusiveMaximum": 1}, {"exclusiveMinimum": 2.5}, {"exclusiveMaximum": 2.5},
              {"exclusiveMaximum": BIG + 2}, {"exclusiveMinimum": BIG}]
    L += [{"multipleOf": 2}, {"multipleOf": 0.5}, {"multipleOf": 1}, {"multipleOf": 2.5}]
    L += [{"minLength": 1}, {"minLength": 2}, {"maxLength": 1}, {"maxLength": 0}]
    L += [{"pattern": "^a"}, {"pattern": "b$"}, {"pattern": "a+"}]
    L += [{"minItems": 1}, {"minItems": 2}, {"maxItems": 1}, {"maxItems": 0}, {"uniqueItems": True}, {"uniqueItems": False}]
    L += [{"required": ["a"]}, {"required": ["a", "b"]}, {"minProperties": 1}, {"minProperties": 2}, {"maxProperties": 1},
          {"maxProperties": 0}]
    if d != "4":
        L.append({"required": []})
    if d in NEW:
        L += [{"dependentRequired": {"a": ["b"]}}, {"dependentRequired": {"b": ["a"]}}, {"dependentRequired": {"a": ["b"], "b": ["a"]}}]
    else:
        L += [{"dependencies": {"a": ["b"]}}, {"dependencies": {"b": ["a"]}}, {"dependencies": {"a": ["b"], "b": ["a"]}}]
    return L


def operand_leaves(d, n):
    full = [F(d), {"type": "integer"}, {"required": ["a"]}, T(d), {"type": "string"}, {"minimum": 1}, {"minItems": 1}, {"enum": [1]}]
    return full[:n]


# ---------------------------------------------------------------------------- templates

def unary_templates(d):
    dk = defs_kw(d)
    pk = prefix_kw(d)
    U = {}
    U["not"] = lambda S: {"not": S}
    U["allOf1"] = lambda S: {"allOf": [S]}
    U["anyOf1"] = lambda S: {"anyOf": [S]}
    U["oneOf1"] = lambda S: {"oneOf": [S]}
    U["props"] = lambda S: {"properties": {"a": S}}
    U["patprops"] = lambda S: {"patternProperties": {"^a": S}}
    U["addprops"] = lambda S: {"additionalProperties": S}
    U["items"] = lambda S: {"items": S}
    U["items1"] = lambda S: {pk: [S]}
    U["additems"] = lambda S: {"additionalItems": S}
    U["ref"] = lambda S: {"$ref": "#/%s/x" % dk, dk: {"x": S}}
    U["ref_late"] = lambda S: {dk: {"x": S}, "$ref": "#/%s/x" % dk}

    def refanchor(S):
        a = anchored(d, S, "k")
        if a is None:
            return None
        if d in NEW:
            return {"$ref": "#k", dk: {"x": a}}
        # drafts 4-7 ignore the siblings of $ref: keep the anchored definition out of the $ref's own object
        return {"allOf": [{"$ref": "#k"}], dk: {"x": a}}
    U["refanchor"] = refanchor

    def rec_props(S):
        return merge(as_obj(d, S), {"properties": {"a": {"$ref": "#"}}}) if S is not True and S != {} else {"properties": {"a": {"$ref": "#"}}}

    def rec_items(S):
        return merge(as_obj(d, S), {"items": {"$ref": "#"}}) if S is not True and S != {} else {"items": {"$ref": "#"}}
    U["rec_props"] = rec_props
    U["rec_items"] = rec_items
    if d in NEW:
        U["depS"] = lambda S: {"dependentSchemas": {"a": S}}
    else:
        U["depS"] = lambda S: {"dependencies": {"a": S}}
    # $ref to the location of a subschema under an applicator keyword (plain JSON pointers into the document)
    depk = "dependentSchemas" if d in NEW else "dependencies"
    U["refloc_props"] = lambda S: {"properties": {"a": S, "b": {"$ref": "#/properties/a"}}}
    U["refloc_pat"] = lambda S: {"patternProperties": {"a+": S}, "properties": {"b": {"$ref": "#/patternProperties/a+"}}}
    U["refloc_pat_enc"] = lambda S: {"patternProperties": {"^a": S}, "properties": {"b": {"$ref": "#/patternProperties/%5Ea"}}}
    U["refloc_dep"] = lambda S: {depk: {"a": S}, "properties": {"b": {"$ref": "#/%s/a" % depk}}}
    U["refloc_addprops"] = lambda S: {"additionalProperties": S, "properties": {"a": {"$ref": "#/additionalProperties"}}}
    U["refloc_not"] = lambda S: {"not": S, "properties": {"a": {"$ref": "#/not"}}}
    U["refloc_allOf"] = lambda S: {"allOf": [S], "properties": {"a": {"$ref": "#/allOf/0"}}}
    if d == "2020":
        U["refloc_prefix"] = lambda S: {"prefixItems": [S], "items": {"$ref": "#/prefixItems/0"}}
        U["refloc_rest"] = lambda S: {"prefixItems": [{"$ref": "#/items"}], "items": S}
    else:
        U["refloc_prefix"] = lambda S: {"items": [S], "additionalItems": {"$ref": "#/items/0"}}
        U["refloc_rest"] = lambda S: {"items": [{"$ref": "#/additionalItems"}], "additionalItems": S}
    if d != "4":
        U["refloc_contains"] = lambda S: {"contains": S, "properties": {"a": {"$ref": "#/contains"}}}
        U["refloc_propnames"] = lambda S: {"propertyNames": S, "properties": {"a": {"$ref": "#/propertyNames"}}}
    if ge(d, "7"):
        U["refloc_if"] = lambda S: {"if": S, "properties": {"a": {"$ref": "#/if"}}}
        U["refloc_then"] = lambda S: {"if": True, "then": S, "properties": {"a": {"$ref": "#/then"}}}
    if d in NEW:
        U["refloc_uprops"] = lambda S: {"properties": {"a": {"$ref": "#/unevaluatedProperties"}}, "unevaluatedProperties": S}
        U["refloc_uitems"] = lambda S: {"properties": {"a": {"$ref": "#/unevaluatedItems"}}, "unevaluatedItems": S}
    if d != "4":
        U["propnames"] = lambda S: {"propertyNames": S}
        U["contains"] = lambda S: {"contains": S}
    if ge(d, "7"):
        U["if"] = lambda S: {"if": S}
        U["then"] = lambda S: {"then": S}
        U["else"] = lambda S: {"else": S}
    if d in NEW:
        U["minc0"] = lambda S: {"contains": S, "minContains": 0}
        U["minc2"] = lambda S: {"contains": S, "minContains": 2}
        U["maxc1"] = lambda S: {"contains": S, "maxContains": 1}
        U["minc_only"] = lambda S: merge(as_obj(d, S), {"minContains": 1}) or {"minContains": 1}
        U["uprops"] = lambda S: {"unevaluatedProperties": S}
        U["uitems"] = lambda S: {"unevaluatedItems": S}
    return U


CORE_UNARY = ["not", "props", "patprops", "addprops", "items", "items1", "contains", "ref", "refanchor", "depS",
              "uprops", "uitems", "allOf1", "rec_props"]


def binary_templates(d):
    dk = defs_kw(d)
    pk = prefix_kw(d)
    B = {}
    B["allOf"] = lambda S, U: {"allOf": [S, U]}
    B["anyOf"] = lambda S, U: {"anyOf": [S, U]}
    B["oneOf"] = lambda S, U: {"oneOf": [S, U]}
    B["props2"] = lambda S, U: {"properties": {"a": S, "b": U}}
    B["props_add"] = lambda S, U: {"properties": {"a": S}, "additionalProperties": U}
    B["pat_add"] = lambda S, U: {"patternProperties": {"^a": S}, "additionalProperties": U}
    B["props_pat"] = lambda S, U: {"properties": {"a": S}, "patternProperties": {"^a": U}}
    B["items2"] = lambda S, U: {pk: [S, U]}
    if d == "2020":
        B["items1_add"] = lambda S, U: {"prefixItems": [S], "items": U}
    else:
        B["items1_add"] = lambda S, U: {"items": [S], "additionalItems": U}
        B["items_additems"] = lambda S, U: {"items": S, "additionalItems": U}
    B["deps2"] = lambda S, U: {("dependentSchemas" if d in NEW else "dependencies"): {"a": S, "b": U}}

    def ref_sibling(S, U):
        if not isinstance(U, dict) or not U or "$ref" in U or dk in U:
            return None
        return merge({"$ref": "#/%s/x" % dk, dk: {"x": S}}, U)
    B["ref_sibling"] = ref_sibling
    B["merge"] = lambda S, U: merge(S, U) if isinstance(S, dict) and isinstance(U, dict) and "$ref" not in S and "$ref" not in U else None
    if d != "4":
        B["contains_items"] = lambda S, U: {"contains": S, "items": U}
        B["propnames_add"] = lambda S, U: {"propertyNames": S, "additionalProperties": U}
    if ge(d, "7"):
        B["ifthen"] = lambda S, U: {"if": S, "then": U}
        B["ifelse"] = lambda S, U: {"if": S, "else": U}
        B["thenelse"] = lambda S, U: {"then": S, "else": U}
    if d in NEW:
        B["props_uprops"] = lambda S, U: {"properties": {"a": S}, "unevaluatedProperties": U}
        B["pat_uprops"] = lambda S, U: {"patternProperties": {"^a": S}, "unevaluatedProperties": U}
        B["add_uprops"] = lambda S, U: {"additionalProperties": S, "unevaluatedProperties": U}
        B["items1_uitems"] = lambda S, U: {pk: [S], "unevaluatedItems": U}
        B["items_uitems"] = lambda S, U: {"items": S, "unevaluatedItems": U}
        B["contains_uitems"] = lambda S, U: {"contains": S, "unevaluatedItems": U}
        if d == "2019":
            B["additems_uitems"] = lambda S, U: {"items": [T(d)], "additionalItems": S, "unevaluatedItems": U}
    return B


CORE_BINARY = ["allOf", "anyOf", "oneOf", "ifthen", "ifelse", "props_add", "items1_add", "props_uprops", "items1_uitems",
               "ref_sibling", "merge"]


def inplace_templates(d):
    """Applicators that apply subschemas to the same instance location (annotation flow into unevaluated*)."""
    dk = defs_kw(d)
    un = {
        "not": lambda P: {"not": P},
        "allOf1": lambda P: {"allOf": [P]},
        "if": lambda P: {"if": P},
        "ref": lambda P: {"$ref": "#/%s/x" % dk, dk: {"x": P}},
        "depS": lambda P: {"dependentSchemas": {"a": P}},
    }
    bi = {
        "allOf": lambda P, Q: {"allOf": [P, Q]},
        "anyOf": lambda P, Q: {"anyOf": [P, Q]},
        "oneOf": lambda P, Q: {"oneOf": [P, Q]},
        "ifthen": lambda P, Q: {"if": P, "then": Q},
        "ifelse": lambda P, Q: {"if": P, "else": Q},
    }
    return un, bi


def apply_unary(tpl, names, ops):
    for n in names:
        f = tpl.get(n)
        if f is None:
            continue
        for S in ops:
            r = f(S)
            if r is not None:
                yield r


def apply_binary(tpl, names, pairs):
    pairs = list(pairs)
    for n in names:
        f = tpl.get(n)
        if f is None:
            continue
        for S, U in pairs:
            r = f(S, U)
            if r is not None:
                yield r


def uneval_family(d, kind, deep):
    """{X..., unevaluatedProperties|unevaluatedItems: U}."""
    if d not in NEW:
        return
    pk = prefix_kw(d)
    if kind == "ue":
        kw = "unevaluatedProperties"
        atoms = [{"properties": {"a": True}}, {"properties": {"a": {"type": "integer"}}}, {"properties": {"b": True}},
                 {"patternProperties": {"^a": True}}, {"additionalProperties": {"type": "integer"}}, {"required": ["a"]},
                 True, False, {"unevaluatedProperties": True}, {"properties": {"a": True}, "required": ["b"]}]
        small = [{"properties": {"a": True}}, {"properties": {"b": {"type": "integer"}}}, {"required": ["a"]}, False]
    else:
        kw = "unevaluatedItems"
        atoms = [{pk: [True]}, {pk: [{"type": "integer"}]}, {pk: [True, True]}, {"items": True}, {"contains": {"type": "integer"}},
                 {"minItems": 1}, True, False, {"unevaluatedItems": True}, {pk: [True], "minItems": 2}]
        if d == "2019":
            atoms.append({"items": [True], "additionalItems": {"type": "integer"}})
        else:
            atoms.append({"prefixItems": [True], "items": {"type": "integer"}})
        small = [{pk: [True]}, {pk: [True, {"type": "integer"}]}, {"contains": {"type": "integer"}}, False]
    un, bi = inplace_templates(d)
    Us = [False, {"type": "integer"}]

    def xs1(ops):
        for n, f in un.items():
            for P in ops:
                yield f(P)
        for n, f in bi.items():
            for P in ops:
                for Q in ops:
                    yield f(P, Q)
    if not deep:
        X = [a for a in atoms if isinstance(a, dict)] + list(xs1(atoms))
    else:
        inner = list(xs1(small))
        X = []
        for n, f in un.items():
            for P in inner:
                X.append(f(P))
        for n, f in bi.items():
            for P in inner:
                for Q in atoms:
                    X.append(f(P, Q))
                    X.append(f(Q, P))
    for x in X:
        if kw in x:
            continue
        for U in Us:
            r = dict(x)
            r[kw] = U
            yield r


def uneval_cross_family(d):
    """Annotations must not cross instance locations: a child-location applicator (properties, patternProperties, items,
    prefixItems, contains ...) whose subschema evaluates names/indices *of the child* next to unevaluated* at the parent,
    bare and under each in-place applicator."""
    if d not in NEW:
        return
    pk = prefix_kw(d)
    un, bi = inplace_templates(d)
    inner_p = [{"properties": {"b": True}}, {"patternProperties": {"^b": True}}, {"additionalProperties": True},
               {"unevaluatedProperties": True}, {"properties": {"b": True, "c": True}}, {"required": ["b"]}]
    wrap_p = [lambda I: {"properties": {"a": I}}, lambda I: {"patternProperties": {"^a": I}},
              lambda I: {"properties": {"a": I, "c": True}}, lambda I: {"dependentSchemas": {"b": {"properties": {"a": I}}}}]
    inner_i = [{pk: [True, True, True]}, {"items": True}, {"contains": {"type": "integer"}}, {"unevaluatedItems": True}, {pk: [True, True]}]
    wrap_i = [lambda I: {pk: [I]}, lambda I: {"contains": I}, lambda I: {pk: [I], "contains": I}]
    for kw, inners, wraps in (("unevaluatedProperties", inner_p, wrap_p), ("unevaluatedItems", inner_i, wrap_i)):
        for I in inners:
            for w in wraps:
                X = w(I)
                cands = [X] + [f(X) for n, f in un.items() if n != "not"] + [f(X, True) for f in bi.values()] + [bi["allOf"](True, X), bi["anyOf"](False, X)]
                for x in cands:
                    if kw in x:
                        continue
                    for U in (False, {"type": "integer"}):
                        r = dict(x)
                        r[kw] = U
                        yield r


def schemas(d, tier):
    """Yield (family, schema) without duplicates (exact member order counts), deterministic order."""
    seen = set()

    def emit(fam, it):
        for s in it:
            k = text(s)
            if k in seen:
                continue
            seen.add(k)
            yield fam, fixrefs(d, s)

    UT, BT = unary_templates(d), binary_templates(d)
    A = leaves(d)
    B8 = operand_leaves(d, 8)
    B4 = operand_leaves(d, 4)
    B3 = operand_leaves(d, 3)
    B2 = operand_leaves(d, 2)
    yield from emit("A", A)
    yield from emit("D1", apply_unary(UT, list(UT), B8))
    yield from emit("D1", apply_binary(BT, list(BT), itertools.product(B8, B8)))
    if ge(d, "7"):
        yield from emit("D1", ({"if": a, "then": b, "else": c} for a in B4 for b in B4 for c in B4))
    K1 = []
    k1seen = set()
    for s in itertools.chain(apply_unary(UT, CORE_UNARY, B3), apply_binary(BT, CORE_BINARY, itertools.product(B2, B2))):
        k = text(s)
        if k not in k1seen:
            k1seen.add(k)
            K1.append(s)
    mixed = [(k, b) for k in K1 for b in B2] + [(b, k) for k in K1 for b in B2]
    yield from emit("D2", apply_unary(UT, [n for n in UT if not n.startswith("refloc_")], K1))
    yield from emit("D2", apply_binary(BT, CORE_BINARY, mixed))
    yield from emit("UE1", uneval_family(d, "ue", False))
    yield from emit("UI1", uneval_family(d, "ui", False))
    yield from emit("UX", uneval_cross_family(d))
    if tier != "thorough":
        return
    yield from emit("D2T", apply_binary(BT, CORE_BINARY, itertools.product(K1, K1)))
    D2core = []
    c2 = set()
    for s in itertools.chain(apply_unary(UT, CORE_UNARY, K1), apply_binary(BT, CORE_BINARY, mixed)):
        k = text(s)
        if k not in c2:
            c2.add(k)
            D2core.append(s)
    yield from emit("D3", apply_unary(UT, CORE_UNARY, D2core))
    yield from emit("UE2", uneval_family(d, "ue", True))
    yield from emit("UI2", uneval_family(d, "ui", True))


# ---------------------------------------------------------------------------- instances

BASE = [None, True, 0, 1, 1.0, 2.5, BIG + 1, "", "a", "ab", "\U0001F600", [], [1], [1, 1], [1, "a"], {}, {"a": 1},
        {"a": 1, "b": "x"}, {"b": 1}]
NUM_EXTRA = [-1, 0.5, 1.5, 2, 3.0, 0.25, 5, BIG, BIG + 2, float(BIG), float(BIG + 2), BIG + 3, -0.0]
STR_EXTRA = ["\U0001F600\U0001F600", "a\U0001F600", "aab", "ba", "b", "é"]
ARR_EXTRA = [[[{"a": 1, "b": 2}], [{"b": 2, "a": 1}]], [[{"a": 1, "b": 2}], [{"b": 2, "a": 2}]], [{"k": [{"a": 1, "b": 2}]}, {"k": [{"b": 2, "a": 1}]}], [1, 1, 1], ["a"], ["a", 1], [1, 1.0], [1, True], [0, False], [[1], [1]], [{"a": 1, "b": 2}, {"b": 2, "a": 1}],
             [1, "a", "a"], [[1]]]
OBJ_EXTRA = [{"a": "x"}, {"ab": 1}, {"a": 1, "b": 1, "c": 1}, {"a": None}, {"a": {"a": 1}}, {"a": {"a": "x"}}, {"b": "x", "c": 1}]
EQ_EXTRA = [[{"b": 2, "a": 1}], [{"a": 1, "b": 2}], [[{"b": 2, "a": 1}], 1], {"k": [{"b": 2, "a": 1}]}, [{"a": 1, "b": 3}], False, 0.0, [1.0], {"a": 1.0}, "1", {"b": "x", "a": 1}, [None], 1e300]
TYPE_EXTRA = [False, -0.0, 3.0, 1e300, 1e19, 0.5]
UE_INST = [{}, {"a": 1}, {"a": 1, "b": "x"}, {"b": 1}, {"a": "x"}, {"ab": 1}, {"a": 1, "b": 1, "c": 1}, {"b": "x", "c": 1}, {"c": 1}, 1, [1]]
UX_INST = [{"a": {"b": 1}, "b": 2}, {"a": {"b": 1}}, {"a": {"b": 1}, "b": "x"}, {"a": {}, "b": 2}, {"a": 1, "b": 2}, {"b": 2}, {"a": {"b": 1, "c": 1}, "c": 1},
           {"a": {"b": 1}, "c": 1, "b": 2}, {},
           [[1, 2, 3], 5, 6], [[1, 2, 3]], [[1], 5], [[1, 2, 3], "x", 6], [1, 5], [["a"], 5, 6], [[1, 2], 5], [], 1]
UI_INST = [[], [1], [1, 1], [1, "a"], ["a"], ["a", 1], [1, 1, 1], [1, "a", "a"], ["a", "a", 1], 1, {"a": 1}]

KW_NUM = {"minimum", "maximum", "exclusiveMinimum", "exclusiveMaximum", "multipleOf"}
KW_STR = {"minLength", "maxLength", "pattern", "propertyNames"}
KW_ARR = {"minItems", "maxItems", "uniqueItems", "contains", "items", "prefixItems", "additionalItems", "unevaluatedItems",
          "minContains", "maxContains"}
KW_OBJ = {"required", "properties", "patternProperties", "additionalProperties", "minProperties", "maxProperties",
          "dependencies", "dependentRequired", "dependentSchemas", "unevaluatedProperties", "propertyNames"}
KW_EQ = {"enum", "const"}


def keywords(s, acc=None):
    """Keyword names used in schema positions (approximation: every object key at any depth)."""
    if acc is None:
        acc = set()
    if isinstance(s, dict):
        for k, v in s.items():
            acc.add(k)
            keywords(v, acc)
    elif isinstance(s, list):
        for v in s:
            keywords(v, acc)
    return acc


def _key(x):
    return text(x) + ("|" + type(x).__name__)


def perm_instances(insts):
    """For every object instance with 2..3 members: every other member order.  Returns list of (index_of_original, permuted)."""
    out = []
    for i, x in enumerate(insts):
        if isinstance(x, dict) and 2 <= len(x) <= 3:
            items = list(x.items())
            for p in itertools.permutations(items):
                if list(p) != items:
                    out.append((i, dict(p)))
    return out


def instances_for(fam, schema):
    if fam in ("UE1", "UE2"):
        L = list(UE_INST)
    elif fam in ("UI1", "UI2"):
        L = list(UI_INST)
    elif fam == "UX":
        L = list(UX_INST)
    else:
        L = list(BASE)
        kws = keywords(schema)
        extra = []
        if fam in ("A", "D1"):
            if kws & KW_NUM:
                extra += NUM_EXTRA
            if kws & KW_STR:
                extra += STR_EXTRA
            if kws & KW_ARR:
                extra += ARR_EXTRA
            if kws & KW_OBJ:
                extra += OBJ_EXTRA
            if kws & KW_EQ:
                extra += EQ_EXTRA
            if "type" in kws:
                extra += TYPE_EXTRA
        else:
            if kws & KW_ARR:
                extra += [["a"], ["a", 1], [1, 1, 1], [[1]]]
            if kws & KW_OBJ:
                extra += [{"a": "x"}, {"ab": 1}, {"a": 1, "b": 1, "c": 1}, {"a": {"a": 1}}]
            if kws & KW_NUM:
                extra += [2, 0.5]
        have = set(_key(x) for x in L)
        for x in extra:
            k = _key(x)
            if k not in have:
                have.add(k)
                L.append(x)
    return L


# ---------------------------------------------------------------------------- member-order variants of a schema

def _dict_nodes(s, path, acc):
    if isinstance(s, dict):
        acc.append((path, s))
        for k, v in s.items():
            _dict_nodes(v, path + (k,), acc)
    elif isinstance(s, list):
        for i, v in enumerate(s):
            _dict_nodes(v, path + (i,), acc)


def _rebuild(s, path, orders):
    if isinstance(s, dict):
        keys = orders.get(path, list(s.keys()))
        return {k: _rebuild(s[k], path + (k,), orders) for k in keys}
    if isinstance(s, list):
        return [_rebuild(v, path + (i,), orders) for i, v in enumerate(s)]
    return s


def order_variants(schema, cap):
    """Member-order variants: every permutation of every object with 2..3 members (product over objects) when that is
    at most `cap` variants, otherwise one object at a time plus full reversal; objects with more members: reversal only."""
    if not isinstance(schema, dict):
        return []
    nodes = []
    _dict_nodes(schema, (), nodes)
    choices = []
    total = 1
    for path, dct in nodes:
        ks = list(dct.keys())
        if 2 <= len(ks) <= 3:
            ps = [list(p) for p in itertools.permutations(ks)]
        elif len(ks) > 3:
            ps = [ks, ks[::-1]]
        else:
            continue
        choices.append((path, ps))
        total *= len(ps)
    if not choices:
        return []
    out = []
    seen = {text(schema)}

    def add(orders):
        v = _rebuild(schema, (), orders)
        k = text(v)
        if k not in seen:
            seen.add(k)
            out.append(v)
    if total - 1 <= cap:
        for combo in itertools.product(*[ps for _, ps in choices]):
            add({path: order for (path, _), order in zip(choices, combo)})
    else:
        add({path: ps[0][::-1] for path, ps in choices})
        for path, ps in choices:
            for order in ps[1:]:
                if len(out) >= cap:
                    break
                add({path: order})
    return out[:cap]


def schema_keyword_variants(d, schema):
    """The same schema with the dialect declared in the text ("$schema" first / last)."""
    if not isinstance(schema, dict) or "$schema" in schema:
        return []
    a = {"$schema": SCHEMA_URI[d]}
    a.update(schema)
    b = dict(schema)
    b["$schema"] = SCHEMA_URI[d]
    return [a, b]


if __name__ == "__main__":
    import sys, collections
    tier = sys.argv[1] if len(sys.argv) > 1 else "quick"
    for d in DIALECTS:
        c = collections.Counter()
        for fam, s in schemas(d, tier):
            c[fam] += 1
        print(d, sum(c.values()), dict(c))
