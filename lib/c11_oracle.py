#!/opt/veriftools/pyvenv/bin/python3
"""C11 reference verdicts: python-jsonschema (run with python3-vt).

stdin : lines "<dialect> <hex schema json> <hex json array of instances>"   (same lines the C++ executor reads;
        a ":flags" suffix on the dialect is ignored)
stdout: one line per input line
          OK <P> <R>              P = python-jsonschema verdict per instance (0/1; no format checker is passed),
                                  R = verdict of the small specification evaluator below (0/1, or ? if it does not
                                  cover the schema).  P is '?' where python-jsonschema is known not to implement the
                                  dialect (2019-09 unevaluatedItems next to contains, see py_verdicts).
          BADSCHEMA <message>     the schema is rejected by the dialect's meta-schema (check_schema) -> case is skipped
          ERR <type> <message>    the reference itself failed (unresolvable reference, recursion limit, ...) -> abstain

Two references because python-jsonschema is itself only an implementation: the driver demands a verdict from jsoncons
only where both references agree (a disagreement is counted as an abstention).  `Spec` is written from the text of
the specifications (draft-04 .. 2020-12 core/validation) for exactly the vocabulary lib/c11_gen.py generates.
"""
import json, sys, warnings

warnings.simplefilter("ignore")
from jsonschema import validators  # noqa: E402
from jsonschema.exceptions import SchemaError  # noqa: E402

CLS = {
    "4": validators.Draft4Validator,
    "6": validators.Draft6Validator,
    "7": validators.Draft7Validator,
    "2019": validators.Draft201909Validator,
    "2020": validators.Draft202012Validator,
}


def clean(s):
    s = " ".join(str(s).split())
    return s[:200]


# ---------------------------------------------------------------------------- specification evaluator

import re
from fractions import Fraction
from urllib.parse import unquote

ORDER = ["4", "6", "7", "2019", "2020"]


class Unsupported(Exception):
    pass


def is_num(x):
    return isinstance(x, (int, float)) and not isinstance(x, bool)


def json_eq(a, b):
    if isinstance(a, bool) or isinstance(b, bool):
        return isinstance(a, bool) and isinstance(b, bool) and a == b
    if is_num(a) and is_num(b):
        return a == b                      # python compares int/float exactly
    if a is None or b is None:
        return a is None and b is None
    if isinstance(a, str) or isinstance(b, str):
        return isinstance(a, str) and isinstance(b, str) and a == b
    if isinstance(a, list) and isinstance(b, list):
        return len(a) == len(b) and all(json_eq(x, y) for x, y in zip(a, b))
    if isinstance(a, dict) and isinstance(b, dict):
        return set(a) == set(b) and all(json_eq(a[k], b[k]) for k in a)
    return False


KNOWN = {
    "$ref", "$defs", "definitions", "$anchor", "$id", "id", "$schema", "type", "enum", "const", "minimum", "maximum",
    "exclusiveMinimum", "exclusiveMaximum", "multipleOf", "minLength", "maxLength", "pattern", "minItems", "maxItems",
    "uniqueItems", "required", "minProperties", "maxProperties", "dependentRequired", "dependencies", "dependentSchemas",
    "allOf", "anyOf", "oneOf", "not", "if", "then", "else", "properties", "patternProperties", "additionalProperties",
    "propertyNames", "items", "prefixItems", "additionalItems", "contains", "minContains", "maxContains",
    "unevaluatedProperties", "unevaluatedItems",
}


class Spec:
    def __init__(self, dialect, root):
        self.d = dialect
        self.root = root
        self.anchors = {}
        self._scan(root)

    def at_least(self, v):
        return ORDER.index(self.d) >= ORDER.index(v)

    def _scan(self, node):
        """plain-name identifiers ($anchor / "$id":"#name" / "id":"#name") anywhere in the document"""
        if isinstance(node, dict):
            if self.at_least("2019"):
                a = node.get("$anchor")
                if isinstance(a, str):
                    self.anchors[a] = node
            else:
                a = node.get("id" if self.d == "4" else "$id")
                if isinstance(a, str) and a.startswith("#"):
                    self.anchors[a[1:]] = node
                elif isinstance(a, str):
                    raise Unsupported("base-URI changing identifier")
            if self.at_least("2019") and "$id" in node:
                raise Unsupported("$id")
            for v in node.values():
                self._scan(v)
        elif isinstance(node, list):
            for v in node:
                self._scan(v)

    def resolve(self, ref):
        if not ref.startswith("#"):
            raise Unsupported("non-local reference")
        frag = unquote(ref[1:])
        if frag == "":
            return self.root
        if frag.startswith("/"):
            node = self.root
            for tok in frag[1:].split("/"):
                tok = tok.replace("~1", "/").replace("~0", "~")
                if isinstance(node, list):
                    node = node[int(tok)]
                else:
                    node = node[tok]
            return node
        return self.anchors[frag]

    def valid(self, instance):
        return self.ev(self.root, instance, 0)[0]

    def ev(self, s, x, depth):
        """-> (valid, evaluated property names, evaluated item indexes) ; annotations only when valid"""
        if depth > 60:
            raise Unsupported("recursion")
        if s is True:
            return True, set(), set()
        if s is False:
            return False, set(), set()
        if not isinstance(s, dict):
            raise Unsupported("schema is not an object or boolean")
        d = self.d
        new = self.at_least("2019")
        for k in s:
            if k not in KNOWN:
                raise Unsupported("keyword " + k)
        if not new and "$ref" in s:          # drafts 4-7: everything next to $ref is ignored
            return self.ev(self.resolve(s["$ref"]), x, depth + 1)
        ok = True
        P, I = set(), set()

        def inplace(sub):
            r = self.ev(sub, x, depth + 1)
            if r[0]:
                P.update(r[1])
                I.update(r[2])
            return r[0]

        if "$ref" in s:
            ok &= inplace(self.resolve(s["$ref"]))
        if "type" in s:
            ts = s["type"] if isinstance(s["type"], list) else [s["type"]]
            ok &= any(self.is_type(x, t) for t in ts)
        if "enum" in s:
            ok &= any(json_eq(x, e) for e in s["enum"])
        if "const" in s and self.at_least("6"):
            ok &= json_eq(x, s["const"])
        if is_num(x):
            if "minimum" in s:
                if d == "4" and s.get("exclusiveMinimum") is True:
                    ok &= x > s["minimum"]
                else:
                    ok &= x >= s["minimum"]
            if "maximum" in s:
                if d == "4" and s.get("exclusiveMaximum") is True:
                    ok &= x < s["maximum"]
                else:
                    ok &= x <= s["maximum"]
            if d != "4":
                if "exclusiveMinimum" in s:
                    ok &= x > s["exclusiveMinimum"]
                if "exclusiveMaximum" in s:
                    ok &= x < s["exclusiveMaximum"]
            if "multipleOf" in s:
                ok &= (Fraction(x) / Fraction(s["multipleOf"])).denominator == 1
        if isinstance(x, str):
            if "minLength" in s:
                ok &= len(x) >= s["minLength"]
            if "maxLength" in s:
                ok &= len(x) <= s["maxLength"]
            if "pattern" in s:
                ok &= re.search(s["pattern"], x) is not None
        if isinstance(x, list):
            if "minItems" in s:
                ok &= len(x) >= s["minItems"]
            if "maxItems" in s:
                ok &= len(x) <= s["maxItems"]
            if s.get("uniqueItems") is True:
                ok &= not any(json_eq(x[i], x[j]) for i in range(len(x)) for j in range(i + 1, len(x)))
            start = 0
            if d == "2020":
                if "prefixItems" in s:
                    for i, sub in enumerate(s["prefixItems"][:len(x)]):
                        ok &= self.ev(sub, x[i], depth + 1)[0]
                        I.add(i)
                    start = len(s["prefixItems"])
                if "items" in s:
                    if isinstance(s["items"], list):
                        raise Unsupported("array-form items in 2020-12")
                    for i in range(start, len(x)):
                        ok &= self.ev(s["items"], x[i], depth + 1)[0]
                        I.add(i)
            else:
                if "items" in s:
                    if isinstance(s["items"], list):
                        for i, sub in enumerate(s["items"][:len(x)]):
                            ok &= self.ev(sub, x[i], depth + 1)[0]
                            I.add(i)
                        if "additionalItems" in s:
                            for i in range(len(s["items"]), len(x)):
                                ok &= self.ev(s["additionalItems"], x[i], depth + 1)[0]
                                I.add(i)
                    else:
                        for i in range(len(x)):
                            ok &= self.ev(s["items"], x[i], depth + 1)[0]
                            I.add(i)
            if "contains" in s and self.at_least("6"):
                hits = [i for i in range(len(x)) if self.ev(s["contains"], x[i], depth + 1)[0]]
                lo = s.get("minContains", 1) if new else 1
                hi = s.get("maxContains") if new else None
                ok &= len(hits) >= lo and (hi is None or len(hits) <= hi)
                if d == "2020":
                    I.update(hits)
        if isinstance(x, dict):
            if "required" in s:
                ok &= all(k in x for k in s["required"])
            if "minProperties" in s:
                ok &= len(x) >= s["minProperties"]
            if "maxProperties" in s:
                ok &= len(x) <= s["maxProperties"]
            if new and "dependentRequired" in s:
                for k, req in s["dependentRequired"].items():
                    if k in x:
                        ok &= all(r in x for r in req)
            if not new and "dependencies" in s:
                for k, dep in s["dependencies"].items():
                    if k in x:
                        if isinstance(dep, list):
                            ok &= all(r in x for r in dep)
                        else:
                            ok &= inplace(dep)
            if new and "dependentSchemas" in s:
                for k, dep in s["dependentSchemas"].items():
                    if k in x:
                        ok &= inplace(dep)
            props = s.get("properties", {})
            pats = s.get("patternProperties", {})
            for k, sub in props.items():
                if k in x:
                    ok &= self.ev(sub, x[k], depth + 1)[0]
                    P.add(k)
            for pat, sub in pats.items():
                for k in x:
                    if re.search(pat, k):
                        ok &= self.ev(sub, x[k], depth + 1)[0]
                        P.add(k)
            if "additionalProperties" in s:
                for k in x:
                    if k not in props and not any(re.search(pat, k) for pat in pats):
                        ok &= self.ev(s["additionalProperties"], x[k], depth + 1)[0]
                        P.add(k)
            if "propertyNames" in s and self.at_least("6"):
                for k in x:
                    ok &= self.ev(s["propertyNames"], k, depth + 1)[0]
        for sub in s.get("allOf", []):
            ok &= inplace(sub)
        if "anyOf" in s:
            ok &= any([inplace(sub) for sub in s["anyOf"]])
        if "oneOf" in s:
            rs = [self.ev(sub, x, depth + 1) for sub in s["oneOf"]]
            good = [r for r in rs if r[0]]
            ok &= len(good) == 1
            if len(good) == 1:
                P.update(good[0][1])
                I.update(good[0][2])
        if "not" in s:
            ok &= not self.ev(s["not"], x, depth + 1)[0]
        if "if" in s and self.at_least("7"):
            if inplace(s["if"]):
                if "then" in s:
                    ok &= inplace(s["then"])
            elif "else" in s:
                ok &= inplace(s["else"])
        if new and "unevaluatedItems" in s and isinstance(x, list):
            for i in range(len(x)):
                if i not in I:
                    ok &= self.ev(s["unevaluatedItems"], x[i], depth + 1)[0]
                    I.add(i)
        if new and "unevaluatedProperties" in s and isinstance(x, dict):
            for k in x:
                if k not in P:
                    ok &= self.ev(s["unevaluatedProperties"], x[k], depth + 1)[0]
                    P.add(k)
        if not ok:
            return False, set(), set()
        return True, P, I

    def is_type(self, x, t):
        if t == "null":
            return x is None
        if t == "boolean":
            return isinstance(x, bool)
        if t == "string":
            return isinstance(x, str)
        if t == "array":
            return isinstance(x, list)
        if t == "object":
            return isinstance(x, dict)
        if t == "number":
            return is_num(x)
        if t == "integer":
            if isinstance(x, bool):
                return False
            if isinstance(x, int):
                return True
            if isinstance(x, float):
                if self.d == "4":
                    raise Unsupported("draft 4 integer on a float")   # the driver abstains here anyway
                return x.is_integer()
            return False
        raise Unsupported("type " + str(t))


def spec_verdicts(d, schema, insts):
    out = []
    try:
        sp = Spec(d, schema)
    except Exception:
        return "?" * len(insts)
    for x in insts:
        try:
            out.append("1" if sp.valid(x) else "0")
        except Exception:
            out.append("?")
    return "".join(out)


# ---------------------------------------------------------------------------- python-jsonschema

def _keys(s, acc):
    if isinstance(s, dict):
        for k, v in s.items():
            acc.add(k)
            _keys(v, acc)
    elif isinstance(s, list):
        for v in s:
            _keys(v, acc)
    return acc


def _to_2020(s):
    """2019-09 -> 2020-12 spelling of the array keywords (same semantics): items:[..] -> prefixItems,
    additionalItems -> items (only meaningful next to array-form items)."""
    if isinstance(s, list):
        return [_to_2020(v) for v in s]
    if not isinstance(s, dict):
        return s
    out = {}
    for k, v in s.items():
        if k == "items" and isinstance(v, list):
            out["prefixItems"] = _to_2020(v)
        elif k == "additionalItems":
            if isinstance(s.get("items"), list):
                out["items"] = _to_2020(v)
        elif k in ("enum", "const", "required"):
            out[k] = v
        else:
            out[k] = _to_2020(v)
    return out


def py_validator(d, schema):
    """python-jsonschema 4.26 implements unevaluatedProperties/unevaluatedItems of draft 2019-09 with a rough
    approximation (_legacy_keywords: an object-valued additionalProperties is read like `properties`, contains always
    marks items, ...) that contradicts the 2019-09 text.  For 2019-09 schemas using unevaluated* the 2020-12 validator
    is used on the respelled schema instead: for the generated vocabulary the two dialects differ only in the spelling
    of items/additionalItems and in `contains` feeding unevaluatedItems (2020-12 only) -- in the latter case there is
    no python-jsonschema opinion."""
    if d == "2019":
        ks = _keys(schema, set())
        if "unevaluatedItems" in ks or "unevaluatedProperties" in ks:
            if "unevaluatedItems" in ks and "contains" in ks:
                return None
            if "$ref" in ks:
                refs = []
                _refs(schema, refs)
                if any("/items" in r or "/additionalItems" in r for r in refs):
                    return None
            t = _to_2020(schema)
            return lambda: validators.Draft202012Validator(t)
    cls = CLS[d]
    return lambda: cls(schema)


def _refs(s, acc):
    if isinstance(s, dict):
        for k, v in s.items():
            if k == "$ref" and isinstance(v, str):
                acc.append(v)
            _refs(v, acc)
    elif isinstance(s, list):
        for v in s:
            _refs(v, acc)


def one(line):
    p = line.split(" ")
    if len(p) != 3:
        return "ERR malformed line"
    d = p[0].split(":")[0]
    cls = CLS.get(d)
    if cls is None:
        return "ERR unknown dialect"
    schema = json.loads(bytes.fromhex(p[1]).decode("utf-8"))
    insts = json.loads(bytes.fromhex(p[2]).decode("utf-8"))
    try:
        cls.check_schema(schema)
    except SchemaError as e:
        return "BADSCHEMA " + clean(e.message)
    except Exception as e:  # meta-validation itself failed
        return "ERR check_schema %s %s" % (type(e).__name__, clean(e))
    out = []
    try:
        mk = py_validator(d, schema)
        if mk is None:
            out = ["?"] * len(insts)
        else:
            for x in insts:
                v = mk()     # fresh validator per instance: the reference has no history
                out.append("1" if v.is_valid(x) else "0")
    except RecursionError:
        return "ERR RecursionError"
    except Exception as e:
        return "ERR %s %s" % (type(e).__name__, clean(e))
    return "OK " + "".join(out) + " " + spec_verdicts(d, schema, insts)


def main():
    sys.setrecursionlimit(3000)
    w = sys.stdout.write
    for line in sys.stdin:
        line = line.strip()
        if not line:
            continue
        w(one(line) + "\n")
    sys.stdout.flush()


if __name__ == "__main__":
    main()
