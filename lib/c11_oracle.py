#!/opt/veriftools/pyvenv/bin/python3
"""C11 reference verdicts: python-jsonschema (run with python3-vt).

stdin : lines "<dialect> <hex schema json> <hex json array of instances>"   (same lines the C++ executor reads;
        a ":flags" suffix on the dialect is ignored)
stdout: one line per input line
          OK <string of 0/1>      verdict per instance (no format checking: no format_checker is passed)
          BADSCHEMA <message>     the schema is rejected by the dialect's meta-schema (check_schema) -> case is skipped
          ERR <type> <message>    the reference itself failed (unresolvable reference, recursion limit, ...) -> abstain
"""
import json, sys, warnings

warnings.simplefilter("ignore")
from jsonschema import validators  # noqa: E402
from jsonschema.exceptions import SchemaError  # noqa: E402

CLS = {
    "4": validators.Draft4Validator,
    "6": validators.Draft6Validator,
    "7": validators.Draft7Validator,
    "2019": validators.Draft201909Validator,
    "2020": validators.Draft202012Validator,
}


def clean(s):
    s = " ".join(str(s).split())
    return s[:200]


def one(line):
    p = line.split(" ")
    if len(p) != 3:
        return "ERR malformed line"
    d = p[0].split(":")[0]
    cls = CLS.get(d)
    if cls is None:
        return "ERR unknown dialect"
    schema = json.loads(bytes.fromhex(p[1]).decode("utf-8"))
    insts = json.loads(bytes.fromhex(p[2]).decode("utf-8"))
    try:
        cls.check_schema(schema)
    except SchemaError as e:
        return "BADSCHEMA " + clean(e.message)
    except Exception as e:  # meta-validation itself failed
        return "ERR check_schema %s %s" % (type(e).__name__, clean(e))
    out = []
    try:
        for x in insts:
            v = cls(schema)     # fresh validator per instance: the reference has no history
            out.append("1" if v.is_valid(x) else "0")
    except RecursionError:
        return "ERR RecursionError"
    except Exception as e:
        return "ERR %s %s" % (type(e).__name__, clean(e))
    return "OK " + "".join(out)


def main():
    sys.setrecursionlimit(3000)
    w = sys.stdout.write
    for line in sys.stdin:
        line = line.strip()
        if not line:
            continue
        w(one(line) + "\n")
    sys.stdout.flush()


if __name__ == "__main__":
    main()
