#!/usr/bin/env python3
"""Regenerates /verif/MANIFEST.json from the table below (run: python3 lib/manifest_gen.py).
Properties without an entry in CLAIMED are listed under not_applicable with the reason in PENDING."""
import json, os

VERIF = os.path.dirname(os.path.dirname(os.path.abspath(__file__)))
ENGINE = "bounded-exhaustive explorer"

CLAIMED = {
    "C01": dict(
        level="exploration", ref="DESIGN.md §4 C01",
        text=("Bounded-exhaustive enumeration on the real encoder and parser: every Unicode scalar value through the escaper "
              "(expected text computed independently), all short strings over one representative per escaper branch, boundary "
              "numbers and out-of-range big numbers, all trees with <= 5 (thorough 6) nodes under all 3^5 x 3 line-split/line-length "
              "layouts and every option set within 2 deviations of the default, through dump/dump_pretty/operator<</encode_json for "
              "json and ojson; four oracles per case (independent RFC 8259 reference reads the same value; own parser reads the same "
              "model value; re-serialization byte-identical; pretty == compact modulo inter-token whitespace)."),
        note=("Trusted: engine/rfc8259_ref.hpp and the model value. float_format/precision/bignum_format excluded as the statement says; "
              "sign of zero and int64-vs-uint64 storage are not distinguished here."),
        technique="bounded-exhaustive enumeration of values x option sets on the real code with round-trip, canonical-form and reference-parser oracles"),
    "C02": dict(
        level="model_checking", ref="DESIGN.md §4 C02",
        text=("Product BFS of the real json_parser (private state read with -fno-access-control, one character per update()) with a "
              "reference RFC 8259 pushdown automaton, nesting depth <= 3, invariant 'no viable prefix rejected; accept at end of input "
              "iff the reference accepts' in every product state; plus bounded-exhaustive enumeration of all texts of length <= 6 "
              "(thorough 7) over a 30-character alphabet, token sequences and the comment alphabet through six entry points and 32 "
              "decode-option sets against an independent recursive-descent reference (verdict and value)."),
        note=("Trusted: the reference parser/automaton in engine/rfc8259_ref.hpp, glibc strtod. Bounds: alphabets and lengths as stated "
              "in evidence.rule; lone surrogate escapes and comments after the root are abstained."),
        technique="explicit-state product search (implementation x reference automaton) + bounded-exhaustive input enumeration on the real code"),
    "C03": dict(
        level="fault_enumeration", ref="DESIGN.md §4 C03",
        text=("The 'fault' is where the buffer ends: every composition of every short input into chunks (every <=2-cut and uniform "
              "chunking of longer ones) is delivered to the incremental parser, json_reader and json_cursor over a scripted source "
              "(eager/lazy eof), stream_source(k) and iterator_source(k) for every k and a one-byte streambuf, in every access mode "
              "(visitor, decoder, cursor next, read_to at every event, filter view, staj iterators); same for CBOR, MessagePack, UBJSON, "
              "BSON and CSV over bytes/stream(k)/iterator(k) sources. Oracle: identical events on success, identical error_code on failure. "
              "Vacuity guard: every parser suspend state must have been hit at a chunk boundary."),
        note=("Trusted: the one-buffer parse of the same build as the reference outcome (C02 judges that one). ASan+UBSan build. "
              "read_to is exercised on value/begin events only; CBOR maps with non-text keys are abstained."),
        technique="exhaustive enumeration of split points / buffer sizes x access modes on the real code, differential oracle"),
    "C09": dict(
        level="model_checking", ref="DESIGN.md §4 C09",
        text=("Explicit-state BFS over two real basic_json variables (json and ojson) under ~60 operations to depth 5 (thorough 7), "
              "states de-duplicated on a kind-exact canonical form incl. capacities; every transition is checked against a reference "
              "model (vector / sorted or insertion-ordered pairs of model values) through all observers; plus the relational laws "
              "(antisymmetric compare, symmetric ==, operators agree with compare, equal identical-kind values print identically) over "
              "all ordered pairs of a ~110-value alphabet covering every storage kind/tag/reference wrapper, and is<T>() => as<T>() exact "
              "over numeric boundary values. Sanitizer reports per transition count as violations."),
        note=("Trusted: the reference model in harness/c09.cpp. Bounds: operation alphabet, depth, value alphabet as in evidence.rule. "
              "Undefined-precondition operations are resynchronised, not predicted."),
        technique="explicit-state BFS on the real objects against a reference model + exhaustive pairwise relational checks"),
}

PENDING = "check not built yet in this session (see DESIGN.md §8 build order); no claim is made"


def main():
    props = [json.loads(l)["id"] for l in open(os.path.join(VERIF, "properties.jsonl"))]
    checks = []
    for pid in props:
        if pid not in CLAIMED:
            continue
        c = CLAIMED[pid]
        checks.append({
            "property_id": pid,
            "quick_cmd": "python3 /verif/check.py %s quick" % pid,
            "thorough_cmd": "python3 /verif/check.py %s thorough" % pid,
            "evidence_file": "/verif/evidence/%s.json" % pid,
            "replay_cmd_template": "python3 /verif/check.py %s --replay {path}" % pid,
            "engine": ENGINE,
            "level_claimed": {"category": c["level"], "text": c["text"], "design_ref": c["ref"]},
            "level_note": c["note"],
            "technique": c["technique"],
        })
    m = {
        "version": 1,
        "setup_cmd": "python3 /verif/check.py --prebuild",
        "hooks": {
            "guard": "JSONCONS_VERIF",
            "enable": ("no source hooks are needed: harnesses are compiled with -DJSONCONS_VERIF against /repo/include and reach private "
                       "state with -fno-access-control, replaced operator new, public chunked sources and a TSan-ABI runtime"),
            "baseline_off_cmd": "cmake --build /repo/_build -j16 && ctest --test-dir /repo/_build -j8 --timeout 900",
            "source_commits": [],
            "add_only": True,
        },
        "engines": [{
            "name": ENGINE, "path": "/verif/check.py", "serves_properties": [c["property_id"] for c in checks],
            "kind_free_text": ("explicit-state / stateless exploration of the real implementation: python driver (lib/) + C++ harnesses "
                               "(harness/, engine/) compiled against /repo/include on every run (content-addressed cache)")}],
        "checks": checks,
        "not_applicable": [{"property_id": p, "reason": PENDING} for p in props if p not in CLAIMED],
        "notes": "See DESIGN.md. known_findings.json lists genuine defects (fixed ones with their commit).",
    }
    with open(os.path.join(VERIF, "MANIFEST.json"), "w") as fh:
        json.dump(m, fh, indent=1)
        fh.write("\n")


if __name__ == "__main__":
    main()
