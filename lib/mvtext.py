"""Model values on the Python side, the parser for the canonical model-value text printed by
engine/mv.hpp (`mv_text(to_mv(json))`), a renderer producing the same text, and the comparison
"reference value == value decoded by jsoncons" used by C06/C07/C08.

A value is a tuple (kind, data, tag):

  ('null', None, tag)               tag 13 = undefined
  ('bool', True|False, 0)
  ('int',  n, tag)                  n is a Python int (unbounded); i<n> and u<n> both parse to it
  ('dbl',  bits64, tag)             IEEE-754 binary64 bit pattern
  ('half', bits16, tag)             IEEE-754 binary16 bit pattern (jsoncons keeps half floats as such)
  ('str',  bytes, tag)              UTF-8 bytes
  ('bin',  (bytes, ext|None), tag)  byte string, optional ext/subtype number
  ('arr',  [values], tag)
  ('obj',  [(keybytes, value)...], tag)

Reference-only kinds (never produced by the parser; produced by reference decoders and accepted
by the reference encoders):

  ('num',  Fraction, tag)           exact rational denoted by a bignum (tag 2), decimal fraction /
                                    high-precision number (tag 3) or bigfloat (tag 10)
  ('ts',   nanoseconds, 0)          MessagePack timestamp: nanoseconds since the epoch

`tag` is the numeric value of jsoncons::semantic_tag (noesc already normalised to 0).
"""
import struct
from fractions import Fraction

TAG_NONE = 0
TAG_BIGINT = 2
TAG_BIGDEC = 3
TAG_DATETIME = 4
TAG_EPOCH_SECOND = 5
TAG_EPOCH_MILLI = 6
TAG_EPOCH_NANO = 7
TAG_BASE16 = 8
TAG_BASE64 = 9
TAG_BIGFLOAT = 10
TAG_FLOAT128 = 11
TAG_BASE64URL = 12
TAG_UNDEFINED = 13
TAG_URI = 14
TAG_CLAMPED = 17
TAG_EXT = 18
TAG_ID = 19
TAG_REGEX = 20
TAG_CODE = 21

INT64_MIN = -(1 << 63)
INT64_MAX = (1 << 63) - 1
UINT64_MAX = (1 << 64) - 1


class MVSyntax(Exception):
    pass


# ---------------------------------------------------------------------------------------------
# float helpers

def f64_bits(x):
    return struct.unpack(">Q", struct.pack(">d", x))[0]


def bits_f64(b):
    return struct.unpack(">d", struct.pack(">Q", b))[0]


def is_nan64(b):
    return (b & 0x7ff0000000000000) == 0x7ff0000000000000 and (b & 0x000fffffffffffff) != 0


def half_to_f64_bits(h):
    """Exact widening of a binary16 bit pattern to binary64 (NaN payload shifted into place)."""
    s = (h >> 15) & 1
    e = (h >> 10) & 0x1f
    m = h & 0x3ff
    if e == 0:
        if m == 0:
            return s << 63
        # subnormal: value = m * 2^-24
        sh = 0
        while not (m & 0x400):
            m <<= 1
            sh += 1
        m &= 0x3ff
        e64 = 1023 - 15 - sh + 1
        return (s << 63) | (e64 << 52) | (m << 42)
    if e == 0x1f:
        return (s << 63) | (0x7ff << 52) | (m << 42)
    return (s << 63) | ((e - 15 + 1023) << 52) | (m << 42)


def f32_to_f64_bits(w):
    """Exact widening of a binary32 bit pattern to binary64."""
    s = (w >> 31) & 1
    e = (w >> 23) & 0xff
    m = w & 0x7fffff
    if e == 0:
        if m == 0:
            return s << 63
        sh = 0
        while not (m & 0x800000):
            m <<= 1
            sh += 1
        m &= 0x7fffff
        e64 = 1023 - 127 - sh + 1
        return (s << 63) | (e64 << 52) | (m << 29)
    if e == 0xff:
        return (s << 63) | (0x7ff << 52) | (m << 29)
    return (s << 63) | ((e - 127 + 1023) << 52) | (m << 29)


def f64_to_f32_bits(b):
    """binary32 pattern denoting exactly the same value as binary64 pattern b, or None."""
    s = (b >> 63) & 1
    e = (b >> 52) & 0x7ff
    m = b & 0xfffffffffffff
    if e == 0x7ff:
        if m & ((1 << 29) - 1):
            return None
        if m != 0 and (m >> 29) == 0:
            return None
        return (s << 31) | (0xff << 23) | (m >> 29)
    if e == 0 and m == 0:
        return s << 31
    for cand_e in (e - 1023 + 127,):
        if 1 <= cand_e <= 254:
            if m & ((1 << 29) - 1):
                return None
            return (s << 31) | (cand_e << 23) | (m >> 29)
    # maybe a float32 subnormal: value = M * 2^-149, 1 <= M < 2^23
    if e == 0:
        return None  # binary64 subnormals are far below the binary32 range
    unb = e - 1023
    if unb < -149 or unb > -127:
        return None
    full = (1 << 52) | m            # value = full * 2^(unb-52)
    shift = 52 - (unb + 149)        # M = full >> shift
    if shift < 0 or full & ((1 << shift) - 1):
        return None
    M = full >> shift
    if not (1 <= M < (1 << 23)):
        return None
    return (s << 31) | M


def f64_to_half_bits(b):
    """binary16 pattern denoting exactly the same value as binary64 pattern b, or None."""
    s = (b >> 63) & 1
    e = (b >> 52) & 0x7ff
    m = b & 0xfffffffffffff
    if e == 0x7ff:
        if m & ((1 << 42) - 1):
            return None
        if m != 0 and (m >> 42) == 0:
            return None
        return (s << 15) | (0x1f << 10) | (m >> 42)
    if e == 0 and m == 0:
        return s << 15
    if e == 0:
        return None
    unb = e - 1023
    if -14 <= unb <= 15:
        if m & ((1 << 42) - 1):
            return None
        return (s << 15) | ((unb + 15) << 10) | (m >> 42)
    if unb < -24 or unb > -15:
        return None
    full = (1 << 52) | m
    shift = 52 - (unb + 24)
    if shift < 0 or full & ((1 << shift) - 1):
        return None
    M = full >> shift
    if not (1 <= M < (1 << 10)):
        return None
    return (s << 15) | M


# ---------------------------------------------------------------------------------------------
# text rendering identical to vf::show / vf::mv_text

def show(b):
    o = []
    for c in b:
        if c == 0x5c:
            o.append("\\\\")
        elif 0x20 <= c < 0x7f:
            o.append(chr(c))
        else:
            o.append("\\x%02x" % c)
    return "".join(o)


def render(v, storage_hint=None):
    """Canonical text of a value as mv_text would print it (objects with keys in byte order, as
    jsoncons::json stores them).  Integers print as u<n> when n >= 0 unless the value carries
    a storage hint; the comparison never depends on it (see `equal`)."""
    k, d, t = v[0], v[1], v[2]
    if k == 'null':
        s = "null"
    elif k == 'bool':
        s = "true" if d else "false"
    elif k == 'int':
        hint = v[3] if len(v) > 3 else None
        if d < 0 or hint == 'i':
            s = "i%d" % d
        else:
            s = "u%d" % d
    elif k == 'dbl':
        s = "d%016x" % d
    elif k == 'half':
        s = "h%04x" % d
    elif k == 'str':
        s = '"' + show(d) + '"'
    elif k == 'bin':
        s = "b'" + d[0].hex() + "'"
        if d[1] is not None:
            s += "x%d" % d[1]
    elif k == 'arr':
        s = "[" + ",".join(render(e) for e in d) + "]"
    elif k == 'obj':
        items = sorted(d, key=lambda kv: kv[0])
        s = "{" + ",".join('"' + show(kk) + '":' + render(vv) for kk, vv in items) + "}"
    else:
        raise MVSyntax("cannot render kind %r" % (k,))
    if t:
        s += "#%d" % t
    return s


# ---------------------------------------------------------------------------------------------
# parser

_HEX = "0123456789abcdef"


def parse(text):
    v, i = _value(text, 0)
    if i != len(text):
        raise MVSyntax("trailing characters at %d in %r" % (i, text[:200]))
    return v


def _string(s, i):
    # s[i] == '"'
    i += 1
    out = bytearray()
    n = len(s)
    while True:
        if i >= n:
            raise MVSyntax("unterminated string")
        c = s[i]
        if c == '"':
            return bytes(out), i + 1
        if c == '\\':
            if s[i + 1] == '\\':
                out.append(0x5c)
                i += 2
            elif s[i + 1] == 'x':
                out.append(int(s[i + 2:i + 4], 16))
                i += 4
            else:
                raise MVSyntax("bad escape at %d" % i)
        else:
            out.append(ord(c))
            i += 1


def _digits(s, i):
    j = i
    n = len(s)
    while j < n and s[j].isdigit():
        j += 1
    if j == i:
        raise MVSyntax("digits expected at %d in %r" % (i, s[:200]))
    return int(s[i:j]), j


def _value(s, i):
    if i >= len(s):
        raise MVSyntax("value expected at end")
    c = s[i]
    if c == 'n' and s.startswith("null", i):
        k, d, i = 'null', None, i + 4
    elif c == 't' and s.startswith("true", i):
        k, d, i = 'bool', True, i + 4
    elif c == 'f' and s.startswith("false", i):
        k, d, i = 'bool', False, i + 5
    elif c == 'i':
        neg = s[i + 1] == '-'
        d, j = _digits(s, i + 2 if neg else i + 1)
        if neg:
            d = -d
        k, i = 'int', j
    elif c == 'u':
        d, i = _digits(s, i + 1)
        k = 'int'
    elif c == 'd':
        d = int(s[i + 1:i + 17], 16)
        k, i = 'dbl', i + 17
    elif c == 'h':
        d = int(s[i + 1:i + 5], 16)
        k, i = 'half', i + 5
    elif c == '"':
        d, i = _string(s, i)
        k = 'str'
    elif c == 'b' and s[i + 1] == "'":
        j = s.index("'", i + 2)
        data = bytes.fromhex(s[i + 2:j])
        i = j + 1
        ext = None
        if i < len(s) and s[i] == 'x':
            ext, i = _digits(s, i + 1)
        k, d = 'bin', (data, ext)
    elif c == '[':
        items = []
        i += 1
        if s[i] == ']':
            i += 1
        else:
            while True:
                e, i = _value(s, i)
                items.append(e)
                if s[i] == ',':
                    i += 1
                elif s[i] == ']':
                    i += 1
                    break
                else:
                    raise MVSyntax("',' or ']' expected at %d" % i)
        k, d = 'arr', items
    elif c == '{':
        items = []
        i += 1
        if s[i] == '}':
            i += 1
        else:
            while True:
                if s[i] != '"':
                    raise MVSyntax("key expected at %d" % i)
                key, i = _string(s, i)
                if s[i] != ':':
                    raise MVSyntax("':' expected at %d" % i)
                e, i = _value(s, i + 1)
                items.append((key, e))
                if s[i] == ',':
                    i += 1
                elif s[i] == '}':
                    i += 1
                    break
                else:
                    raise MVSyntax("',' or '}' expected at %d" % i)
        k, d = 'obj', items
    else:
        raise MVSyntax("unexpected %r at %d in %r" % (c, i, s[:200]))
    tag = 0
    if i < len(s) and s[i] == '#':
        tag, i = _digits(s, i + 1)
    return (k, d, tag), i


# ---------------------------------------------------------------------------------------------
# exact value of jsoncons' textual renderings of big numbers

def _parse_decimal(b):
    """[-]digits[.digits][(e|E)[+-]digits] -> Fraction, or None."""
    try:
        s = b.decode("ascii")
    except UnicodeDecodeError:
        return None
    i = 0
    n = len(s)
    neg = False
    if i < n and s[i] == '-':
        neg = True
        i += 1
    j = i
    while j < n and s[j].isdigit():
        j += 1
    ip = s[i:j]
    fp = ""
    i = j
    if i < n and s[i] == '.':
        j = i + 1
        while j < n and s[j].isdigit():
            j += 1
        fp = s[i + 1:j]
        if not fp:
            return None
        i = j
    if not ip and not fp:
        return None
    ex = 0
    if i < n and s[i] in "eE":
        j = i + 1
        if j < n and s[j] in "+-":
            j += 1
        k = j
        while k < n and s[k].isdigit():
            k += 1
        if k == j:
            return None
        ex = int(s[i + 1:k])
        i = k
    if i != n:
        return None
    if abs(ex) > 100000:
        return None
    mant = int((ip + fp) or "0")
    val = Fraction(mant) * (Fraction(10) ** (ex - len(fp)))
    return -val if neg else val


def _parse_bigfloat(b):
    """jsoncons bigfloat text: [-]0x<hex>p[-]<hex>  -> Fraction, or None."""
    try:
        s = b.decode("ascii")
    except UnicodeDecodeError:
        return None
    neg = False
    if s.startswith("-"):
        neg = True
        s = s[1:]
    if not s.startswith("0x"):
        return None
    s = s[2:]
    if "p" not in s:
        return None
    ms, es = s.split("p", 1)
    eneg = False
    if es.startswith("-"):
        eneg = True
        es = es[1:]
    if not ms or not es or any(ch not in "0123456789abcdefABCDEF" for ch in ms + es):
        return None
    m = int(ms, 16)
    e = int(es, 16)
    if e > 100000:
        return None
    if eneg:
        e = -e
    val = Fraction(m) * (Fraction(2) ** e)
    return -val if neg else val


def number_of(v):
    """Exact rational denoted by a decoded value that claims to be a number, or None."""
    k, d, t = v[0], v[1], v[2]
    if k == 'int':
        return Fraction(d)
    if k == 'num':
        return d
    if k == 'str':
        if t == TAG_BIGINT:
            f = _parse_decimal(d)
            if f is not None and f.denominator == 1:
                return f
            return None
        if t == TAG_BIGDEC:
            return _parse_decimal(d)
        if t == TAG_BIGFLOAT:
            return _parse_bigfloat(d)
    return None


# ---------------------------------------------------------------------------------------------
# comparison: reference value r against value v decoded by jsoncons

def _float_bits(v):
    if v[0] == 'dbl':
        return v[1]
    if v[0] == 'half':
        return half_to_f64_bits(v[1])
    return None


def equal(r, v):
    """True iff the jsoncons value v denotes the reference value r.
    Numbers are compared by value (int64/uint64 storage is not part of the statement), any NaN
    equals any NaN, objects are compared as maps, semantic tags must agree."""
    k = r[0]
    if k == 'int':
        if v[0] == 'int':
            return r[1] == v[1] and r[2] == v[2]
        # an integer outside what int64/uint64 can hold may be delivered as a bignum
        if v[0] == 'str' and v[2] == TAG_BIGINT and r[2] == 0 and not (INT64_MIN <= r[1] <= UINT64_MAX):
            f = number_of(v)
            return f is not None and f == r[1]
        return False
    if k == 'num':
        if v[0] == 'str':
            if v[2] != r[2]:
                return False
            f = number_of(v)
            return f is not None and f == r[1]
        if v[0] == 'int' and v[2] == 0:
            return r[1] == v[1]
        return False
    if k == 'ts':
        # MessagePack timestamp: jsoncons delivers seconds tagged epoch_second or a decimal string
        # of nanoseconds tagged epoch_nano
        if v[0] == 'int' and v[2] == TAG_EPOCH_SECOND:
            return v[1] * 1000000000 == r[1]
        if v[0] == 'int' and v[2] == TAG_EPOCH_NANO:
            return v[1] == r[1]
        if v[0] == 'str' and v[2] == TAG_EPOCH_NANO:
            f = _parse_decimal(v[1])
            return f is not None and f == r[1]
        return False
    if k in ('dbl', 'half'):
        a = _float_bits(r)
        b = _float_bits(v)
        if b is None or r[2] != v[2]:
            return False
        if is_nan64(a) and is_nan64(b):
            return True
        return a == b
    if k != v[0] or r[2] != v[2]:
        return False
    if k == 'null':
        return True
    if k in ('bool', 'str'):
        return r[1] == v[1]
    if k == 'bin':
        return r[1][0] == v[1][0] and r[1][1] == v[1][1]
    if k == 'arr':
        if len(r[1]) != len(v[1]):
            return False
        for a, b in zip(r[1], v[1]):
            if not equal(a, b):
                return False
        return True
    if k == 'obj':
        if len(r[1]) != len(v[1]):
            return False
        m = {}
        for kk, vv in v[1]:
            if kk in m:
                return False
            m[kk] = vv
        for kk, rv in r[1]:
            if kk not in m or not equal(rv, m[kk]):
                return False
        return True
    return False


def same(a, b):
    """Equality of two reference-side values (round-trip self tests): like `equal`, symmetric for
    the reference-only kinds."""
    if a[0] in ('num', 'ts') or b[0] in ('num', 'ts'):
        if a[0] != b[0] and not ({a[0], b[0]} == {'num', 'int'}):
            return False
        if a[0] == 'int' or b[0] == 'int':
            return Fraction(a[1]) == Fraction(b[1])
        return a[1] == b[1] and a[2] == b[2]
    if a[0] in ('arr',) and b[0] == 'arr':
        return a[2] == b[2] and len(a[1]) == len(b[1]) and all(same(x, y) for x, y in zip(a[1], b[1]))
    if a[0] == 'obj' and b[0] == 'obj':
        if a[2] != b[2] or len(a[1]) != len(b[1]):
            return False
        m = dict(b[1])
        return all(kk in m and same(vv, m[kk]) for kk, vv in a[1])
    if a[0] == 'int' and b[0] == 'int':
        return a[1] == b[1] and a[2] == b[2]
    return equal(a, b)


# ---------------------------------------------------------------------------------------------
# helper of the reference encoders

def product(lists, limit):
    """All concatenations choosing one alternative per position, total length <= limit.
    Runs of positions with a single alternative are joined first (a 65536-element array of
    one-form children is one join, not 65536 list rebuilds)."""
    merged = []
    run = []
    for alts in lists:
        if len(alts) == 1:
            run.append(alts[0])
        else:
            if run:
                merged.append([b"".join(run)])
                run = []
            merged.append(alts)
    if run:
        merged.append([b"".join(run)])
    res = [b""]
    for alts in merged:
        nxt = []
        for pre in res:
            for a in alts:
                if len(pre) + len(a) <= limit:
                    nxt.append(pre + a)
        res = nxt
        if not res:
            break
    return res
