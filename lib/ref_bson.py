"""Reference BSON codec written from the BSON 1.1 specification (bsonspec.org); stdlib only.

decode(data) -> ("OK", value) | ("ILL", class) | ("UNSPEC", why)

  ILL     truncated document; a document / array / string / binary / code-with-scope whose declared
          size disagrees with its content (too small, element running past the end of its document,
          terminating 0x00 not where the size says, string not ending in 0x00, string length < 1,
          negative binary length); unknown element type; invalid UTF-8 in a string value or in an
          element name of a document.
  UNSPEC  bytes after the root document; element types without a JSON-like counterpart (undefined,
          regex, DBPointer, symbol, code with scope, timestamp, decimal128, min key, max key);
          binary subtype 2 (old binary with inner length); boolean byte other than 0/1; array element
          names that are not "0","1",...; duplicate names.  After a min/max key the reference stops
          judging altogether (jsoncons reads a string payload there, so the rest of the parse differs).
  OK      the root document as ('obj'); double -> ('dbl'); string -> ('str'); int32/int64 -> ('int');
          datetime -> ('int', ms, epoch_milli); binary -> ('bin', (data, subtype), ext);
          ObjectId -> ('str', 24 lower-case hex digits, id); JavaScript code -> ('str', text, code).
"""
from lib import mvtext as mv


class Ill(Exception):
    def __init__(self, cls):
        Exception.__init__(self, cls)
        self.cls = cls


class _St(object):
    __slots__ = ("b", "n", "pos", "unspec", "opaque", "marks")

    def __init__(self, b, marks):
        self.b = b
        self.n = len(b)
        self.pos = 0
        self.unspec = None
        self.opaque = False
        self.marks = marks

    def note(self, why, opaque=False):
        if self.unspec is None:
            self.unspec = why
        if opaque:
            self.opaque = True


def _take(st, n, end):
    p = st.pos
    if n > end - p:
        raise Ill("truncated" if end == st.n else "size-mismatch")
    st.pos = p + n
    return st.b[p:p + n]


def _int32(st, end, kind=None):
    p = st.pos
    v = int.from_bytes(_take(st, 4, end), "little", signed=True)
    if st.marks is not None and kind is not None:
        st.marks.append((p, kind, v))
    return v


def _cstring(st, end):
    p = st.pos
    q = st.b.find(b"\x00", p, end)
    if q < 0:
        raise Ill("truncated" if end == st.n else "size-mismatch")
    st.pos = q + 1
    return bytes(st.b[p:q])


def _string(st, end):
    n = _int32(st, end, "string")
    if n < 1:
        raise Ill("string-length-not-positive")
    d = bytes(_take(st, n, end))
    if d[-1] != 0:
        raise Ill("string-not-terminated")
    d = d[:-1]
    try:
        d.decode("utf-8")
    except UnicodeDecodeError:
        raise Ill("utf8")
    return d


def _document(st, limit, is_array):
    start = st.pos
    n = _int32(st, limit, "document")
    if n < 5:
        raise Ill("size-mismatch")
    if n > limit - start:
        raise Ill("truncated" if limit == st.n else "size-mismatch")
    end = start + n
    items = []
    ok = True
    seen = set()
    idx = 0
    while True:
        if st.pos >= end:
            raise Ill("size-mismatch")
        t = st.b[st.pos]
        st.pos += 1
        if t == 0:
            if st.pos != end:
                raise Ill("size-mismatch")
            break
        name = _cstring(st, end)
        if is_array:
            if name != str(idx).encode():
                st.note("array-element-names")
                ok = False
        else:
            try:
                name.decode("utf-8")
            except UnicodeDecodeError:
                raise Ill("utf8")
        idx += 1
        v = _element(st, t, end)
        if v is None:
            ok = False
            continue
        if is_array:
            items.append(v)
        else:
            if name in seen:
                st.note("duplicate-name")
                ok = False
            seen.add(name)
            items.append((name, v))
    if not ok:
        return None
    return ('arr' if is_array else 'obj', items, 0)


def _element(st, t, end):
    if t == 0x01:
        return ('dbl', int.from_bytes(_take(st, 8, end), "little"), 0)
    if t == 0x02:
        return ('str', _string(st, end), 0)
    if t == 0x03:
        return _document(st, end, False)
    if t == 0x04:
        return _document(st, end, True)
    if t == 0x05:
        n = _int32(st, end, "binary")
        if n < 0:
            raise Ill("negative-length")
        sub = _take(st, 1, end)[0]
        d = bytes(_take(st, n, end))
        if sub == 2:
            st.note("old-binary-subtype")
            return None
        return ('bin', (d, sub), mv.TAG_EXT)
    if t == 0x06:
        st.note("undefined-type")
        return None
    if t == 0x07:
        return ('str', bytes(_take(st, 12, end)).hex().encode(), mv.TAG_ID)
    if t == 0x08:
        c = _take(st, 1, end)[0]
        if c > 1:
            st.note("boolean-byte-not-0-or-1")
            return None
        return ('bool', c == 1, 0)
    if t == 0x09:
        return ('int', int.from_bytes(_take(st, 8, end), "little", signed=True), mv.TAG_EPOCH_MILLI, 'i')
    if t == 0x0a:
        return ('null', None, 0)
    if t == 0x0b:
        _cstring(st, end)
        _cstring(st, end)
        st.note("regex-type")
        return None
    if t == 0x0c:
        _string(st, end)
        _take(st, 12, end)
        st.note("dbpointer-type")
        return None
    if t == 0x0d:
        return ('str', _string(st, end), mv.TAG_CODE)
    if t == 0x0e:
        _string(st, end)
        st.note("symbol-type")
        return None
    if t == 0x0f:
        start = st.pos
        n = _int32(st, end, "code_w_s")
        if n < 4 + 5 + 5 or n > end - start:
            raise Ill("size-mismatch" if n >= 0 and end != st.n or n < 14 else "truncated")
        inner_end = start + n
        _string(st, inner_end)
        _document(st, inner_end, False)
        if st.pos != inner_end:
            raise Ill("size-mismatch")
        st.note("code-with-scope-type")
        return None
    if t == 0x10:
        return ('int', int.from_bytes(_take(st, 4, end), "little", signed=True), 0, 'i')
    if t == 0x11:
        _take(st, 8, end)
        st.note("timestamp-type")
        return None
    if t == 0x12:
        return ('int', int.from_bytes(_take(st, 8, end), "little", signed=True), 0, 'i')
    if t == 0x13:
        _take(st, 16, end)
        st.note("decimal128-type")
        return None
    if t == 0xff or t == 0x7f:
        st.note("min-max-key-type", opaque=True)
        return None
    raise Ill("unknown-element-type")


def decode(data, marks=None):
    st = _St(bytes(data), marks)
    try:
        v = _document(st, st.n, False)
    except Ill as e:
        if st.opaque:
            return ("UNSPEC", st.unspec)
        return ("ILL", e.cls)
    except RecursionError:
        return ("UNSPEC", "nesting-beyond-reference-limit")
    if st.unspec is not None:
        return ("UNSPEC", st.unspec)
    if v is None:
        return ("UNSPEC", "abstained")
    if st.pos != st.n:
        return ("UNSPEC", "trailing-bytes")
    return ("OK", v)


# ---------------------------------------------------------------------------------------------
# encoder

_product = mv.product


def _str_body(d):
    return (len(d) + 1).to_bytes(4, "little") + d + b"\x00"


def _elements(v, mode, limit, modes=None, path=()):
    """list of (type byte, payload) alternatives for a value."""
    if modes is not None:
        mode = modes.get(path, "min")
    if mode == "one":
        mode = "min"
    k, d, t = v[0], v[1], v[2]
    if k == 'null':
        return [(0x0a, b"")]
    if k == 'bool':
        return [(0x08, b"\x01" if d else b"\x00")]
    if k == 'int':
        if t == mv.TAG_EPOCH_MILLI:
            return [(0x09, d.to_bytes(8, "little", signed=True))]
        out = []
        if -(1 << 31) <= d < (1 << 31):
            out.append((0x10, d.to_bytes(4, "little", signed=True)))
        if mode != "min" or not out:
            out.append((0x12, d.to_bytes(8, "little", signed=True)))
        return out
    if k == 'dbl':
        return [(0x01, d.to_bytes(8, "little"))]
    if k == 'str':
        if t == mv.TAG_ID:
            return [(0x07, bytes.fromhex(d.decode()))]
        if t == mv.TAG_CODE:
            return [(0x0d, _str_body(d))]
        return [(0x02, _str_body(d))]
    if k == 'bin':
        sub = d[1] if d[1] is not None else 0
        return [(0x05, len(d[0]).to_bytes(4, "little") + bytes([sub]) + d[0])]
    if k == 'arr':
        return [(0x04, b) for b in _doc_bodies([(str(i).encode(), e) for i, e in enumerate(d)], mode, limit, modes, path, True)]
    if k == 'obj':
        return [(0x03, b) for b in _doc_bodies(d, mode, limit, modes, path, False)]
    raise ValueError("ref_bson cannot encode %r" % (k,))


def _doc_bodies(items, mode, limit, modes=None, path=(), is_array=False):
    seq = []
    for i, (name, v) in enumerate(items):
        cp = path + ((i,) if is_array else (i, 'v'))
        seq.append([bytes([t]) + name + b"\x00" + p for t, p in _elements(v, mode, limit, modes, cp)])
    out = []
    for body in _product(seq, limit - 5):
        out.append((len(body) + 5).to_bytes(4, "little") + body + b"\x00")
    return out


def encodings(v, mode="full", limit=1 << 30, child_mode=None, modes=None, path=()):
    """Every legal encoding of a root document (int32-representable integers as int32 and as int64).
    With `modes` (dict path -> mode, default "one"): per-node choice as in ref_cbor.encodings."""
    if v[0] != 'obj':
        raise ValueError("the root of a BSON document is an object")
    for b in _doc_bodies(v[1], child_mode or mode, limit, modes, path, False):
        if len(b) <= limit:
            yield b


def denote(v):
    k, d, t = v[0], v[1], v[2]
    if k == 'bin':
        return ('bin', (d[0], d[1] if d[1] is not None else 0), mv.TAG_EXT)
    if k == 'arr':
        return ('arr', [denote(e) for e in d], t)
    if k == 'obj':
        return ('obj', [(kk, denote(vv)) for kk, vv in d], t)
    return v


# ---------------------------------------------------------------------------------------------
# self test

def _i(x):
    return ('int', x, 0)


SPEC_VECTORS = [
    # the two examples of bsonspec.org
    ("160000000268656c6c6f0006000000776f726c640000", ('obj', [(b"hello", ('str', b"world", 0))], 0)),
    ("310000000442534f4e002600000002300008000000617765736f6d65000131003333333333331440103200c20700000000",
     ('obj', [(b"BSON", ('arr', [('str', b"awesome", 0), ('dbl', mv.f64_bits(5.05), 0), _i(1986)], 0))], 0)),
    ("0500000000", ('obj', [], 0)),
    ("0c0000001061000100000000", ('obj', [(b"a", _i(1))], 0)),
    ("10000000126100010000000000000000", ('obj', [(b"a", _i(1))], 0)),
    ("080000000a610000", ('obj', [(b"a", ('null', None, 0))], 0)),
    ("090000000861000100", ('obj', [(b"a", ('bool', True, 0))], 0)),
    ("090000000861000000", ('obj', [(b"a", ('bool', False, 0))], 0)),
    ("10000000096100e803000000000000" + "00", ('obj', [(b"a", ('int', 1000, mv.TAG_EPOCH_MILLI))], 0)),
    ("0f0000000561000200000080010200", ('obj', [(b"a", ('bin', (b"\x01\x02", 0x80), mv.TAG_EXT))], 0)),
    ("14000000076100" + "0102030405060708090a0b0c" + "00", ('obj', [(b"a", ('str', b"0102030405060708090a0b0c", mv.TAG_ID))], 0)),
    ("0e0000000d6100020000007800" + "00", ('obj', [(b"a", ('str', b"x", mv.TAG_CODE))], 0)),
    ("0d000000036100050000000000", ('obj', [(b"a", ('obj', [], 0))], 0)),
    ("0d000000046100050000000000", ('obj', [(b"a", ('arr', [], 0))], 0)),
    ("1000000002610004000000610062000" + "0", ('obj', [(b"a", ('str', b"a\x00b", 0))], 0)),
]
SPEC_ILL = [
    "", "05", "050000", "05000000", "0400000000", "0600000000", "060000000000", "0500000001",
    # {"a": int32 1} = 0c000000 10 6100 01000000 00: cut short, declared size -1 / +1, terminator not zero
    "0c00000010610001000000", "0b0000001061000100000000", "0d0000001061000100000000", "0c0000001061000100000001",
    "0c000000106100010000", "0c0000001461000100000000",
    # {"a": "a"} = 0e000000 02 6100 02000000 61 00 00: string terminator, string length 0 / +1 / -1, truncation, UTF-8
    "0e00000002610002000000610100", "0e00000002610000000000610000", "0e00000002610003000000610000",
    "0e00000002610001000000610000", "0e000000026100020000006100", "0e00000002610002000000ff0000",
    "0c00000010ff000100000000",
    # {"a": {}} = 0d000000 03 6100 05000000 00 00: inner size +1 / -1
    "0d000000036100060000000000", "0d000000036100040000000000", "0d000000046100060000000000",
    # {"a": binary 80 0102} = 0f000000 05 6100 02000000 80 0102 00: length +1, negative
    "0f0000000561000300000080010200", "0f000000056100ffffffff80010200",
]
SPEC_UNSPEC = ["050000000000", "0800000006610000", "08000000ff610000", "080000007f610000", "090000000861000200",
               "10000000116100010000000000000000", "0b0000000b610061000000",
               "140000000461000c000000103100010000000000", "13000000106100010000001061000200000000"]


def selftest(values=()):
    errs = []
    for hx, want in SPEC_VECTORS:
        got = decode(bytes.fromhex(hx))
        if got[0] != "OK" or not mv.same(want, got[1]):
            errs.append("bson vector %s: want %r got %r" % (hx, want, got))
    for hx in SPEC_ILL:
        if len(hx) % 2:
            errs.append("bson ill-formed vector %s has odd length" % hx)
            continue
        got = decode(bytes.fromhex(hx))
        if got[0] != "ILL":
            errs.append("bson ill-formed vector %s: got %r" % (hx, got))
    for hx in SPEC_UNSPEC:
        got = decode(bytes.fromhex(hx))
        if got[0] != "UNSPEC":
            errs.append("bson vector %s: want UNSPEC got %r" % (hx, got))
    for v in values:
        want = denote(v)
        for e in encodings(v, "full", 200):
            got = decode(e)
            if got[0] != "OK" or not mv.same(want, got[1]):
                errs.append("bson round trip %r via %s: got %r" % (v, e.hex(), got))
                if len(errs) > 20:
                    return errs
    return errs
