"""Reference CBOR codec written from RFC 8949 (and RFC 8746 for typed arrays); stdlib only.

decode(data) -> ("OK", value) | ("ILL", class) | ("UNSPEC", why)

  ILL     the first data item is not well-formed in the sense of RFC 8949 appendix C
          (truncated / reserved additional information 28-30 / additional information 31 on major
          type 0, 1, 6 / break outside an indefinite-length item / bad chunk in an indefinite-length
          string / two-byte simple value < 32) or a text string is not valid UTF-8.
          Ill-formedness wins over every abstention: structure is decided before meaning.
  UNSPEC  well-formed, but the statement of C07 does not say what the value is: bytes after the
          first item, map keys that are not (untagged) text strings, duplicate keys, unassigned
          simple values, tags the reference does not interpret or applied to content of the wrong
          type, nested tags.
  OK      value in the model of lib/mvtext.py.  Interpreted tags (jsoncons semantic tag numbers):
          0 text -> datetime; 1 int/float32/float64 -> epoch_second; 2, 3 byte string -> ('num', n, bigint);
          4, 5 [exponent, mantissa] -> ('num', m*10^e | m*2^e, bigdec | bigfloat);
          21, 22, 23 byte string -> base64url, base64, base16; 32, 33, 34 text -> uri, base64url, base64;
          64..86 except 76 (reserved) and 83 (binary128) byte string -> array of numbers (RFC 8746; 68 = clamped).

encodings(value, mode) yields every legal encoding of an encoder-side value ("full") or one of each
form ("reduced"); see the function for the value kinds it takes.
"""
import struct
from fractions import Fraction
from lib import mvtext as mv

MAX_EXP = 5000      # |exponent| of decimal fractions / bigfloats the reference is willing to evaluate


class Ill(Exception):
    def __init__(self, cls):
        Exception.__init__(self, cls)
        self.cls = cls


class _St(object):
    __slots__ = ("b", "n", "pos", "unspec", "marks")

    def __init__(self, b, marks):
        self.b = b
        self.n = len(b)
        self.pos = 0
        self.unspec = None
        self.marks = marks

    def note(self, why):
        if self.unspec is None:
            self.unspec = why


def _head(st, breakable=False):
    """Reads an initial byte and its argument.  Returns (major, ai, arg); arg is None for ai 31."""
    b = st.b
    p = st.pos
    if p >= st.n:
        raise Ill("truncated")
    ib = b[p]
    mt = ib >> 5
    ai = ib & 0x1f
    if ai < 24:
        st.pos = p + 1
        arg = ai
        w = 0
    elif ai <= 27:
        w = 1 << (ai - 24)
        if p + 1 + w > st.n:
            raise Ill("truncated")
        arg = int.from_bytes(b[p + 1:p + 1 + w], "big")
        st.pos = p + 1 + w
    elif ai < 31:
        raise Ill("reserved-ai")
    else:
        if mt in (0, 1, 6):
            raise Ill("reserved-ai")
        if mt == 7 and not breakable:
            raise Ill("stray-break")
        st.pos = p + 1
        arg = None
        w = 0
    if st.marks is not None:
        st.marks.append((p, mt, ai, arg))
    return mt, ai, arg


def _take(st, n):
    p = st.pos
    if n > st.n - p:
        raise Ill("truncated")
    st.pos = p + n
    return st.b[p:p + n]


_BREAK = object()


def _string_body(st, mt, arg):
    """Content of a byte/text string whose head has just been read."""
    if arg is not None:
        data = _take(st, arg)
        if mt == 3:
            try:
                data.decode("utf-8")
            except UnicodeDecodeError:
                raise Ill("utf8")
        return bytes(data)
    out = bytearray()
    while True:
        if st.pos >= st.n:
            raise Ill("truncated")
        if st.b[st.pos] == 0xff:
            if st.marks is not None:
                st.marks.append((st.pos, 7, 31, None))
            st.pos += 1
            return bytes(out)
        cmt, cai, carg = _head(st)
        if cmt != mt or carg is None:
            raise Ill("bad-chunk")
        chunk = _take(st, carg)
        if mt == 3:
            try:
                chunk.decode("utf-8")
            except UnicodeDecodeError:
                raise Ill("utf8")
        out += chunk


_TA = {}  # RFC 8746 tag -> (struct code without byte order, size, little endian?, kind)
for _t in range(64, 88):
    if _t == 76:
        continue          # reserved (would be "sint8, little endian")
    _f = (_t >> 4) & 1
    _s = (_t >> 3) & 1
    _e = (_t >> 2) & 1
    _ll = _t & 3
    if _f == 0:
        _size = 1 << _ll
        _code = ("bhiq" if _s else "BHIQ")[_ll]
        _TA[_t] = (_code, _size, bool(_e), 'int')
    else:
        _size = 2 << _ll
        if _s:
            continue  # 88..95 reserved; not in range anyway
        _TA[_t] = ({2: "e", 4: "f", 8: "d", 16: None}[_size], _size, bool(_e), 'float')


def _item(st, breakable=False):
    """Reads one data item.  Returns the value, or None if an abstention was noted inside,
    or _BREAK (only when breakable)."""
    mt, ai, arg = _head(st, breakable)
    if mt == 0:
        return ('int', arg, 0)
    if mt == 1:
        return ('int', -1 - arg, 0)
    if mt == 2:
        return ('bin', (_string_body(st, 2, arg), None), 0)
    if mt == 3:
        return ('str', _string_body(st, 3, arg), 0)
    if mt == 4:
        items = []
        ok = True
        if arg is None:
            while True:
                e = _item(st, breakable=True)
                if e is _BREAK:
                    break
                if e is None:
                    ok = False
                items.append(e)
        else:
            i = 0
            while i < arg:
                e = _item(st)
                if e is None:
                    ok = False
                items.append(e)
                i += 1
        return ('arr', items, 0) if ok else None
    if mt == 5:
        items = []
        ok = True
        seen = set()
        i = 0
        while arg is None or i < arg:
            kpos = st.pos
            k = _item(st, breakable=(arg is None))
            if k is _BREAK:
                break
            if k is not None and (k[0] != 'str' or k[2] != 0 or st.b[kpos] >> 5 != 3):
                st.note("non-text-key")
                k = None
            v = _item(st)   # a break here is not breakable: stray-break (odd number of items)
            if k is None or v is None:
                ok = False
            else:
                if k[1] in seen:
                    st.note("duplicate-key")
                    ok = False
                seen.add(k[1])
                items.append((k[1], v))
            i += 1
        return ('obj', items, 0) if ok else None
    if mt == 6:
        cpos = st.pos
        content = _item(st)
        if content is None:
            return None
        v = _apply_tag(st, arg, content, cpos)
        if v is None:
            st.note("tag-%d-not-interpreted" % arg if arg < 100000 else "tag-large-not-interpreted")
            return None
        return v
    # major type 7
    if arg is None:
        return _BREAK
    if ai < 20:
        st.note("unassigned-simple")
        return None
    if ai == 20:
        return ('bool', False, 0)
    if ai == 21:
        return ('bool', True, 0)
    if ai == 22:
        return ('null', None, 0)
    if ai == 23:
        return ('null', None, mv.TAG_UNDEFINED)
    if ai == 24:
        if arg < 32:
            raise Ill("simple-lt-32")
        st.note("unassigned-simple")
        return None
    if ai == 25:
        return ('half', arg, 0)
    if ai == 26:
        return ('dbl', mv.f32_to_f64_bits(arg), 0)
    return ('dbl', arg, 0)


def _apply_tag(st, tag, c, cpos):
    """Meaning of tag number `tag` applied to already decoded content c; None = not interpreted."""
    k = c[0]
    cmt = st.b[cpos] >> 5
    if c[2] != 0 or cmt == 6:
        st.note("nested-tags")
        return None
    if tag == 0:
        return ('str', c[1], mv.TAG_DATETIME) if k == 'str' else None
    if tag == 1:
        if k == 'int':
            return ('int', c[1], mv.TAG_EPOCH_SECOND) + tuple(c[3:])
        if k == 'dbl':
            return ('dbl', c[1], mv.TAG_EPOCH_SECOND)
        return None
    if tag == 2 or tag == 3:
        if k != 'bin':
            return None
        n = int.from_bytes(c[1][0], "big")
        return ('num', Fraction(n if tag == 2 else -1 - n), mv.TAG_BIGINT)
    if tag == 4 or tag == 5:
        if k != 'arr' or len(c[1]) != 2:
            return None
        if st.b[cpos] & 0x1f == 31:
            return None   # indefinite-length pair: abstain
        e, m = c[1]
        if e[0] != 'int' or e[2] != 0:
            return None
        if m[0] == 'int' and m[2] == 0:
            mant = m[1]
        elif m[0] == 'num' and m[2] == mv.TAG_BIGINT:
            mant = int(m[1])
        else:
            return None
        if abs(e[1]) > MAX_EXP:
            return None
        base = 10 if tag == 4 else 2
        r = ('num', Fraction(mant) * Fraction(base) ** e[1], mv.TAG_BIGDEC if tag == 4 else mv.TAG_BIGFLOAT)
        if m[0] == 'int' and not (mv.INT64_MIN <= mant <= mv.UINT64_MAX):
            r += ('beyond64',)     # mantissa given as a plain integer that neither int64 nor uint64 holds
        return r
    if tag in (21, 22, 23):
        if k != 'bin':
            return None
        return ('bin', c[1], {21: mv.TAG_BASE64URL, 22: mv.TAG_BASE64, 23: mv.TAG_BASE16}[tag])
    if tag in (32, 33, 34):
        if k != 'str':
            return None
        return ('str', c[1], {32: mv.TAG_URI, 33: mv.TAG_BASE64URL, 34: mv.TAG_BASE64}[tag])
    if tag in _TA:
        if k != 'bin':
            return None
        code, size, little, kind = _TA[tag]
        data = c[1][0]
        if code is None or len(data) % size:
            return None
        out = []
        bo = "<" if little else ">"
        for i in range(0, len(data), size):
            chunk = data[i:i + size]
            if kind == 'int':
                out.append(('int', struct.unpack(bo + code, chunk)[0], 0))
            elif size == 2:
                out.append(('half', int.from_bytes(chunk, "little" if little else "big"), 0))
            elif size == 4:
                out.append(('dbl', mv.f32_to_f64_bits(int.from_bytes(chunk, "little" if little else "big")), 0))
            else:
                out.append(('dbl', int.from_bytes(chunk, "little" if little else "big"), 0))
        return ('arr', out, mv.TAG_CLAMPED if tag == 68 else 0)
    return None


def decode(data, marks=None):
    st = _St(bytes(data), marks)
    try:
        v = _item(st)
    except Ill as e:
        return ("ILL", e.cls)
    if st.unspec is not None:
        return ("UNSPEC", st.unspec)
    if v is None:
        return ("UNSPEC", "abstained")
    if st.pos != st.n:
        return ("UNSPEC", "trailing-bytes")
    return ("OK", v)


# ---------------------------------------------------------------------------------------------
# encoder

def heads(mt, n, mode="full"):
    """Every legal head (initial byte + argument) for major type mt and argument n."""
    out = []
    if n < 24:
        out.append(bytes([(mt << 5) | n]))
    if n < 0x100:
        out.append(bytes([(mt << 5) | 24, n]))
    if n < 0x10000:
        out.append(bytes([(mt << 5) | 25]) + n.to_bytes(2, "big"))
    if n < 0x100000000:
        out.append(bytes([(mt << 5) | 26]) + n.to_bytes(4, "big"))
    if n < (1 << 64):
        out.append(bytes([(mt << 5) | 27]) + n.to_bytes(8, "big"))
    if mode == "min":
        return out[:1]
    return out


def _utf8_boundaries(b):
    return [i for i in range(len(b) + 1) if i == len(b) or (b[i] & 0xc0) != 0x80]


def _string_encodings(mt, data, mode):
    """Definite in every width; indefinite with 0 (if empty), 1 and 2 chunks at every split."""
    n = len(data)
    for h in heads(mt, n, "min" if mode == "min" else "full"):
        yield h + data
    ind = bytes([(mt << 5) | 31])
    if n == 0:
        yield ind + b"\xff"
    cm = "full" if mode == "full" else "min"
    for h in heads(mt, n, cm):
        yield ind + h + data + b"\xff"
    if mode == "min":
        return
    cuts = _utf8_boundaries(data) if mt == 3 else list(range(n + 1))
    if len(cuts) > 40:       # long strings: the splits next to both ends and the middle one
        cuts = cuts[:3] + [cuts[len(cuts) // 2]] + cuts[-3:]
    for c in cuts:
        a, b = data[:c], data[c:]
        for h1 in heads(mt, len(a), cm):
            for h2 in heads(mt, len(b), cm):
                yield ind + h1 + a + h2 + b + b"\xff"


_product = mv.product


def encodings(v, mode="full", limit=1 << 30, child_mode=None, modes=None, path=()):
    """Yields encodings of an encoder-side value, each at most `limit` bytes.

    If `modes` (dict path -> mode) is given, every node of the value tree is encoded in mode
    modes.get(path, "one"): the path of the root is (), of the i-th array element path+(i,), of the
    i-th map key path+(i,'k') and of its value path+(i,'v').  "one" = preferred serialisation only.

    Encoder-side values are the mvtext tuples plus
      ('bignum', n, 0)                tag 2/3 + byte string (also with one leading zero byte)
      ('decfrac', (e, m), 0)          tag 4 [e, m]   (m as integer or bignum if it does not fit)
      ('bigfloat', (e, m), 0)         tag 5 [e, m]
      ('typed', (tag, bytes), 0)      RFC 8746 typed array
    and semantic tags on int/dbl (epoch_second), str (datetime, uri, base64url, base64) and
    bin (base64url, base64, base16).

    mode "full": every head width of every length/argument/tag number, every chunking;
    mode "reduced": every form once (each width of the outermost head, 1-chunk and each 2-chunk
    split with minimal chunk heads); "min": preferred serialisation plus indefinite form.
    Children of containers are encoded with child_mode (default: "reduced" under "full",
    otherwise "min").
    """
    if modes is not None:
        mode = modes.get(path, "one")
    one = mode == "one"
    if child_mode is None:
        child_mode = "reduced" if mode == "full" else ("one" if one else "min")
    if one:
        mode = "min"
    k, d, t = v[0], v[1], v[2]
    tagheads = [b""]
    if k == 'int':
        if t == mv.TAG_EPOCH_SECOND:
            tagheads = heads(6, 1, "full" if mode == "full" else "min")
        body = heads(0, d) if d >= 0 else heads(1, -1 - d)
        if mode == "min":
            body = body[:1]
    elif k in ('dbl', 'half'):
        if t == mv.TAG_EPOCH_SECOND:
            tagheads = heads(6, 1, "full" if mode == "full" else "min")
        bits = d if k == 'dbl' else mv.half_to_f64_bits(d)
        body = []
        h = mv.f64_to_half_bits(bits)
        if h is not None and t == 0:
            body.append(b"\xf9" + h.to_bytes(2, "big"))
        f = mv.f64_to_f32_bits(bits)
        if f is not None:
            body.append(b"\xfa" + f.to_bytes(4, "big"))
        body.append(b"\xfb" + bits.to_bytes(8, "big"))
    elif k == 'null':
        body = [b"\xf7" if t == mv.TAG_UNDEFINED else b"\xf6"]
    elif k == 'bool':
        body = [b"\xf5" if d else b"\xf4"]
    elif k == 'str':
        tn = {0: None, mv.TAG_DATETIME: 0, mv.TAG_URI: 32, mv.TAG_BASE64URL: 33, mv.TAG_BASE64: 34}[t]
        if tn is not None:
            tagheads = heads(6, tn, "full" if mode == "full" else "min")
        body = [e for e in _string_encodings(3, d, mode) if len(e) <= limit]
    elif k == 'bin':
        tn = {0: None, mv.TAG_BASE64URL: 21, mv.TAG_BASE64: 22, mv.TAG_BASE16: 23}[t]
        if tn is not None:
            tagheads = heads(6, tn, "full" if mode == "full" else "min")
        body = [e for e in _string_encodings(2, d[0], mode) if len(e) <= limit]
    elif k == 'bignum':
        tn = 2 if d >= 0 else 3
        mag = d if d >= 0 else -1 - d
        raw = mag.to_bytes((mag.bit_length() + 7) // 8, "big")
        tagheads = heads(6, tn, "full" if mode == "full" else "min")
        body = []
        for r in (raw, b"\x00" + raw):
            body += [e for e in _string_encodings(2, r, "reduced" if mode == "full" else mode) if len(e) <= limit]
    elif k in ('decfrac', 'bigfloat'):
        e, m = d
        tagheads = heads(6, 4 if k == 'decfrac' else 5, "full" if mode == "full" else "min")
        es = list(encodings(('int', e, 0), "reduced" if mode == "full" else "min"))
        if -(1 << 64) <= m < (1 << 64):
            ms = list(encodings(('int', m, 0), "reduced" if mode == "full" else "min"))
        else:
            ms = []
        if not ms or mode == "full":
            ms += list(encodings(('bignum', m, 0), "min"))
            if mode == "full":
                mag = m if m >= 0 else -1 - m
                raw = mag.to_bytes((mag.bit_length() + 7) // 8, "big")
                ms += [th + heads(2, len(raw), "min")[0] + raw for th in heads(6, 2 if m >= 0 else 3)[1:]]
        body = []
        for hd in heads(4, 2, "full" if mode == "full" else "min"):
            body += _product([[hd], es, ms], limit)
    elif k == 'typed':
        tagheads = heads(6, d[0], "full" if mode == "full" else "min")
        body = [e for e in _string_encodings(2, d[1], "reduced" if mode == "full" else mode) if len(e) <= limit]
    elif k == 'arr':
        kids = [list(encodings(e, child_mode, limit, None, modes, path + (i,))) for i, e in enumerate(d)]
        body = []
        hs = heads(4, len(d)) if mode != "min" else heads(4, len(d), "min")
        for hd in hs:
            body += _product([[hd]] + kids, limit)
        if not one:
            body += _product([[b"\x9f"]] + kids + [[b"\xff"]], limit)
    elif k == 'obj':
        kids = []
        for i, (kk, vv) in enumerate(d):
            kids.append(list(encodings(('str', kk, 0), child_mode if child_mode in ("min", "one") else "reduced", limit, None, modes, path + (i, 'k'))))
            kids.append(list(encodings(vv, child_mode, limit, None, modes, path + (i, 'v'))))
        body = []
        hs = heads(5, len(d)) if mode != "min" else heads(5, len(d), "min")
        for hd in hs:
            body += _product([[hd]] + kids, limit)
        if not one:
            body += _product([[b"\xbf"]] + kids + [[b"\xff"]], limit)
    else:
        raise ValueError("ref_cbor cannot encode %r" % (k,))
    if one and k not in ('arr', 'obj'):
        body = sorted(body, key=len)[:1]
    for th in tagheads:
        for b in body:
            if len(th) + len(b) <= limit:
                yield th + b


def denote(v):
    """Decoder-side value that an encoder-side value denotes."""
    k, d, t = v[0], v[1], v[2]
    if k == 'bignum':
        return ('num', Fraction(d), mv.TAG_BIGINT)
    if k == 'decfrac':
        return ('num', Fraction(d[1]) * Fraction(10) ** d[0], mv.TAG_BIGDEC)
    if k == 'bigfloat':
        return ('num', Fraction(d[1]) * Fraction(2) ** d[0], mv.TAG_BIGFLOAT)
    if k == 'typed':
        st = _St(b"\x40", None)
        return _apply_tag(st, d[0], ('bin', (d[1], None), 0), 0)
    if k == 'arr':
        return ('arr', [denote(e) for e in d], t)
    if k == 'obj':
        return ('obj', [(kk, denote(vv)) for kk, vv in d], t)
    return v


# ---------------------------------------------------------------------------------------------
# self test: RFC 8949 appendix A vectors and round trips

def _d(x):
    return ('dbl', mv.f64_bits(x), 0)


def _s(x):
    return ('str', x.encode("utf-8"), 0)


def _i(x):
    return ('int', x, 0)


def _a(*xs):
    return ('arr', list(xs), 0)


def _o(*kv):
    return ('obj', [(k.encode(), v) for k, v in kv], 0)


RFC8949_A = [
    ("00", _i(0)), ("01", _i(1)), ("0a", _i(10)), ("17", _i(23)), ("1818", _i(24)), ("1819", _i(25)),
    ("1864", _i(100)), ("1903e8", _i(1000)), ("1a000f4240", _i(1000000)),
    ("1b000000e8d4a51000", _i(1000000000000)), ("1bffffffffffffffff", _i(18446744073709551615)),
    ("c249010000000000000000", ('num', Fraction(18446744073709551616), 2)),
    ("3bffffffffffffffff", _i(-18446744073709551616)),
    ("c349010000000000000000", ('num', Fraction(-18446744073709551617), 2)),
    ("20", _i(-1)), ("29", _i(-10)), ("3863", _i(-100)), ("3903e7", _i(-1000)),
    ("f90000", _d(0.0)), ("f98000", _d(-0.0)), ("f93c00", _d(1.0)), ("fb3ff199999999999a", _d(1.1)),
    ("f93e00", _d(1.5)), ("f97bff", _d(65504.0)), ("fa47c35000", _d(100000.0)),
    ("fa7f7fffff", _d(3.4028234663852886e+38)), ("fb7e37e43c8800759c", _d(1.0e+300)),
    ("f90001", _d(5.960464477539063e-8)), ("f90400", _d(0.00006103515625)), ("f9c400", _d(-4.0)),
    ("fbc010666666666666", _d(-4.1)), ("f97c00", _d(float("inf"))), ("f97e00", _d(float("nan"))),
    ("f9fc00", _d(float("-inf"))), ("fa7f800000", _d(float("inf"))), ("fa7fc00000", _d(float("nan"))),
    ("faff800000", _d(float("-inf"))), ("fb7ff0000000000000", _d(float("inf"))),
    ("fb7ff8000000000000", _d(float("nan"))), ("fbfff0000000000000", _d(float("-inf"))),
    ("f4", ('bool', False, 0)), ("f5", ('bool', True, 0)), ("f6", ('null', None, 0)),
    ("f7", ('null', None, mv.TAG_UNDEFINED)),
    ("c074323031332d30332d32315432303a30343a30305a", ('str', b"2013-03-21T20:04:00Z", mv.TAG_DATETIME)),
    ("c11a514b67b0", ('int', 1363896240, mv.TAG_EPOCH_SECOND)),
    ("c1fb41d452d9ec200000", ('dbl', mv.f64_bits(1363896240.5), mv.TAG_EPOCH_SECOND)),
    ("d74401020304", ('bin', (b"\x01\x02\x03\x04", None), mv.TAG_BASE16)),
    ("d82076687474703a2f2f7777772e6578616d706c652e636f6d", ('str', b"http://www.example.com", mv.TAG_URI)),
    ("40", ('bin', (b"", None), 0)), ("4401020304", ('bin', (b"\x01\x02\x03\x04", None), 0)),
    ("60", _s("")), ("6161", _s("a")), ("6449455446", _s("IETF")), ("62225c", _s("\"\\")),
    ("62c3bc", _s("ü")), ("63e6b0b4", _s("水")), ("64f0908591", _s("\U00010151")),
    ("80", _a()), ("83010203", _a(_i(1), _i(2), _i(3))),
    ("8301820203820405", _a(_i(1), _a(_i(2), _i(3)), _a(_i(4), _i(5)))),
    ("98190102030405060708090a0b0c0d0e0f101112131415161718181819", _a(*[_i(x) for x in range(1, 26)])),
    ("a0", _o()),
    ("a26161016162820203", _o(("a", _i(1)), ("b", _a(_i(2), _i(3))))),
    ("826161a161626163", _a(_s("a"), _o(("b", _s("c"))))),
    ("a56161614161626142616361436164614461656145",
     _o(("a", _s("A")), ("b", _s("B")), ("c", _s("C")), ("d", _s("D")), ("e", _s("E")))),
    ("5f42010243030405ff", ('bin', (b"\x01\x02\x03\x04\x05", None), 0)),
    ("7f657374726561646d696e67ff", _s("streaming")),
    ("9fff", _a()), ("9f018202039f0405ffff", _a(_i(1), _a(_i(2), _i(3)), _a(_i(4), _i(5)))),
    ("9f01820203820405ff", _a(_i(1), _a(_i(2), _i(3)), _a(_i(4), _i(5)))),
    ("83018202039f0405ff", _a(_i(1), _a(_i(2), _i(3)), _a(_i(4), _i(5)))),
    ("83019f0203ff820405", _a(_i(1), _a(_i(2), _i(3)), _a(_i(4), _i(5)))),
    ("9f0102030405060708090a0b0c0d0e0f101112131415161718181819ff", _a(*[_i(x) for x in range(1, 26)])),
    ("bf61610161629f0203ffff", _o(("a", _i(1)), ("b", _a(_i(2), _i(3))))),
    ("826161bf61626163ff", _a(_s("a"), _o(("b", _s("c"))))),
    ("bf6346756ef563416d7421ff", _o(("Fun", ('bool', True, 0)), ("Amt", _i(-2)))),
    # RFC 8949 section 3.4.4
    ("c48221196ab3", ('num', Fraction(27315, 100), mv.TAG_BIGDEC)),
    ("c5822003", ('num', Fraction(3, 2), mv.TAG_BIGFLOAT)),
]

# RFC 8949 appendix A entries the reference must abstain on, and appendix F style ill-formed items
RFC8949_UNSPEC = ["f0", "f8ff", "a201020304", "d818456449455446", "d9d9f700"]
RFC8949_ILL = [
    # appendix F.1: end of input in a head / in a string / in a container
    "18", "19", "1a", "1b", "1901", "1a0102", "1b01020304050607", "38", "58", "78", "98", "9a01ff00", "b8", "d8", "f8", "f900", "fa0000", "fb000000",
    "41", "61", "5affffffff00", "5bffffffffffffffff010203", "7affffffff00", "7b7fffffffffffffff010203",
    "81", "818181818181818181", "8200", "a1", "a20102", "a100", "a2000000",
    "5f4100", "7f6100", "9f", "9f0102", "bf", "bf01020102", "819f", "9f8000", "9f9f9f9f9fffffffff", "9f819f819f9fffffff",
    # F.1: reserved additional information
    "1c", "1d", "1e", "3c", "3d", "3e", "5c", "5d", "5e", "7c", "7d", "7e", "9c", "9d", "9e", "bc", "bd", "be",
    "dc", "dd", "de", "fc", "fd", "fe",
    # reserved two-byte simple
    "f800", "f801", "f818", "f81f",
    # indefinite-length string chunks not of the right type / not definite
    "5f00ff", "5f21ff", "5f6100ff", "5f80ff", "5fa0ff", "5fc000ff", "5fe0ff", "7f4100ff", "5f5f4100ffff", "7f7f6100ffff",
    # break outside an indefinite-length item / in the wrong place
    "ff", "81ff", "8200ff", "a1ff", "a1ff00", "a100ff", "a20000ff", "9f81ff", "9f829f819f9fffffffff",
    "bf00ff", "bf000000ff",
    # additional information 31 on major types 0, 1, 6
    "1f", "3f", "df",
    # invalid UTF-8 (the statement of C07 asks for rejection)
    "61ff", "62c328", "7f61c361bcff", "63eda080",
]


def _float_helpers_selftest():
    errs = []
    for h in range(0, 0x10000, 1):
        b = mv.half_to_f64_bits(h)
        try:
            x = struct.unpack(">e", h.to_bytes(2, "big"))[0]
        except Exception:
            continue
        if x == x:
            if mv.f64_bits(x) != b:
                errs.append("half widen %04x" % h)
        elif not mv.is_nan64(b):
            errs.append("half widen nan %04x" % h)
        back = mv.f64_to_half_bits(b)
        if back != h:
            errs.append("half narrow %04x -> %r" % (h, back))
    for w in list(range(0, 1 << 32, 0x10001 * 7)) + [1, 2, 0x7fffff, 0x800000, 0x7f7fffff, 0x7f800000, 0x7fc00000, 0x7f800001,
                                                      0x80000001, 0xff800000, 0x00400000, 0x33800000, 0x34000000]:
        w &= 0xffffffff
        b = mv.f32_to_f64_bits(w)
        x = struct.unpack(">f", w.to_bytes(4, "big"))[0]
        if x == x:
            if mv.f64_bits(x) != b:
                errs.append("f32 widen %08x" % w)
        elif not mv.is_nan64(b):
            errs.append("f32 widen nan %08x" % w)
        back = mv.f64_to_f32_bits(b)
        if back != w:
            errs.append("f32 narrow %08x -> %r" % (w, back))
    for x in (0.1, 1.1, 1e300, 5e-324, 2.0 ** -150, 2.0 ** -25, 65505.0, 2.0 ** 128, 3.4028234663852889e+38):
        b = mv.f64_bits(x)
        if mv.f64_to_f32_bits(b) is not None and struct.unpack(">f", struct.pack(">f", x))[0] != x:
            errs.append("f32 narrow accepted %r" % x)
        if mv.f64_to_half_bits(b) is not None:
            errs.append("half narrow accepted %r" % x)
    return errs[:10]


def selftest(values=()):
    """Returns a list of error strings (empty = the reference agrees with the RFC vectors and with itself)."""
    errs = _float_helpers_selftest()
    for hx, want in RFC8949_A:
        got = decode(bytes.fromhex(hx))
        if got[0] != "OK" or not mv.same(want, got[1]):
            errs.append("cbor vector %s: want %r got %r" % (hx, want, got))
    for hx in RFC8949_UNSPEC:
        got = decode(bytes.fromhex(hx))
        if got[0] != "UNSPEC":
            errs.append("cbor vector %s: want UNSPEC got %r" % (hx, got))
    for hx in RFC8949_ILL:
        got = decode(bytes.fromhex(hx))
        if got[0] != "ILL":
            errs.append("cbor ill-formed vector %s: got %r" % (hx, got))
    n = 0
    for v in values:
        want = denote(v)
        for e in encodings(v, "full", 64):
            n += 1
            got = decode(e)
            if got[0] != "OK" or not mv.same(want, got[1]):
                errs.append("cbor round trip %r via %s: got %r" % (v, e.hex(), got))
                if len(errs) > 20:
                    return errs
    return errs
