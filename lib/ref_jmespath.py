"""Reference interpreter of the JMESPath specification (jmespath.org), AST level.

Written from the specification text only (grammar, evaluation rules of each expression kind,
the function signatures of the "Built-in functions" chapter); nothing is taken from jsoncons.

  evaluate(ast, doc)   -> Outcome (value | error classes | abstention) + flags
  render(ast)          -> expression text with the minimal parentheses the grammar's precedences require
  static_errors(ast)   -> error classes that an implementation may already report when compiling
  parse(text)          -> ast   (a minimal Pratt parser; used ONLY for the model self-test against the
                                  compliance files and for the render-fidelity self-check, never as the
                                  oracle of the check itself)
  selftest(dir)        -> (cases, failures)

AST (nested tuples).  `L` is the expression a postfix construct is applied to; ('elem',) is the
implicit current node (renders as nothing): the head of a bare `[0]`, `[*]`, `*`, `[]`, `[?..]` and
the head of the right-hand side R of every projection.
  ('id', name)  ('qid', name, escape_non_ascii)   identifier (unquoted if possible / always quoted)
  ('cur',)  ('elem',)  ('lit', value)  ('raw', str)
  ('sub', L, X)            L.X      X in id|qid|mlist|mhash|fn
  ('idx', L, n)            L[n]
  ('slice', L, (a,b,c), R) L[a:b:c] R        (projection)
  ('proj', L, R)           L[*] R            (list projection)
  ('vproj', L, R)          L.* R  /  * R     (object projection)
  ('flat', L, R)           L[] R             (flatten projection)
  ('filt', L, C, R)        L[?C] R           (filter projection)
  ('pipe', A, B) ('or', A, B) ('and', A, B) ('not', A) ('cmp', op, A, B) ('paren', A)
  ('mlist', [E...])  ('mhash', [(key, E)...])
  ('fn', name, [arg...])   arg = E | ('expref', E)
"""
import json
import math
import os
import re

ERR_SYNTAX = "syntax"
ERR_TYPE = "invalid-type"
ERR_ARITY = "invalid-arity"
ERR_UNKNOWN = "unknown-function"
ERR_VALUE = "invalid-value"


class JError(Exception):
    def __init__(self, classes):
        Exception.__init__(self, str(classes))
        self.classes = frozenset([classes] if isinstance(classes, str) else classes)


class Abstain(Exception):
    """The specification does not determine the outcome of this evaluation."""


class SyntaxErr(Exception):
    pass


class Unrenderable(Exception):
    pass


class Expref(object):
    __slots__ = ("node",)

    def __init__(self, node):
        self.node = node


# ---------------------------------------------------------------------------- values

def jtype(v):
    if v is None:
        return "null"
    if v is True or v is False:
        return "boolean"
    if isinstance(v, (int, float)):
        return "number"
    if isinstance(v, str):
        return "string"
    if isinstance(v, list):
        return "array"
    if isinstance(v, dict):
        return "object"
    if isinstance(v, Expref):
        return "expref"
    raise TypeError(repr(v))


def deep_eq(a, b):
    ta, tb = jtype(a), jtype(b)
    if ta != tb:
        return False
    if ta == "array":
        return len(a) == len(b) and all(deep_eq(x, y) for x, y in zip(a, b))
    if ta == "object":
        return a.keys() == b.keys() and all(deep_eq(a[k], b[k]) for k in a)
    return a == b


def multiset_eq(a, b):
    """Equality that ignores the order of array elements (used only when a result's order derives
    from the member order of an object, which the specification leaves open)."""
    ta, tb = jtype(a), jtype(b)
    if ta != tb:
        return False
    if ta == "array":
        if len(a) != len(b):
            return False
        rest = list(b)
        for x in a:
            for i, y in enumerate(rest):
                if multiset_eq(x, y):
                    del rest[i]
                    break
            else:
                return False
        return True
    if ta == "object":
        return a.keys() == b.keys() and all(multiset_eq(a[k], b[k]) for k in a)
    return a == b


def truthy(v):
    t = jtype(v)
    if t == "null":
        return False
    if t == "boolean":
        return v
    if t in ("string", "array", "object"):
        return len(v) > 0
    return True  # every number, including 0


def _okeys(d):
    return sorted(d.keys())


def _has_wide_object(v):
    if isinstance(v, dict):
        return len(v) > 1 or any(_has_wide_object(x) for x in v.values())
    if isinstance(v, list):
        return any(_has_wide_object(x) for x in v)
    return False


def _has_number(v):
    if isinstance(v, dict):
        return any(_has_number(x) for x in v.values())
    if isinstance(v, list):
        return any(_has_number(x) for x in v)
    return jtype(v) == "number"


def loose_eq(a, b):
    """deep_eq, except that two strings are also equal when both are JSON texts of equal values
    (used only for results that contain to_string of a number)"""
    ta, tb = jtype(a), jtype(b)
    if ta != tb:
        return False
    if ta == "string":
        if a == b:
            return True
        try:
            return deep_eq(json.loads(a), json.loads(b))
        except ValueError:
            return False
    if ta == "array":
        return len(a) == len(b) and all(loose_eq(x, y) for x, y in zip(a, b))
    if ta == "object":
        return a.keys() == b.keys() and all(loose_eq(a[k], b[k]) for k in a)
    return a == b


# ---------------------------------------------------------------------------- functions

_NUM_RE = re.compile(r"-?(0|[1-9][0-9]*)(\.[0-9]+)?([eE][+-]?[0-9]+)?\Z")

#            name: (signature, variadic)
SIGNATURES = {
    "abs": (["number"],), "avg": (["array-number"],), "ceil": (["number"],), "floor": (["number"],),
    "contains": (["array|string", "any"],), "ends_with": (["string", "string"],), "starts_with": (["string", "string"],),
    "join": (["string", "array-string"],), "keys": (["object"],), "values": (["object"],),
    "length": (["string|array|object"],), "map": (["expref", "array"],),
    "max": (["array-number|array-string"],), "min": (["array-number|array-string"],),
    "max_by": (["array", "expref"],), "min_by": (["array", "expref"],), "sort_by": (["array", "expref"],),
    "merge": (["object"], True), "not_null": (["any"], True),
    "reverse": (["string|array"],), "sort": (["array-number|array-string"],), "sum": (["array-number"],),
    "to_array": (["any"],), "to_string": (["any"],), "to_number": (["any"],), "type": (["any"],),
}


def fn_arity_ok(name, n):
    sig = SIGNATURES[name]
    if len(sig) > 1 and sig[1]:
        return True  # variadic: zero arguments is handled as an abstention at evaluation
    return n == len(sig[0])


def _match(v, spec):
    t = jtype(v)
    for alt in spec.split("|"):
        if alt == "any":
            if t == "expref":
                # "any" ranges over the JSON types; whether an expression reference is acceptable is not stated
                raise Abstain("expref passed to a parameter of type any")
            return True
        if alt == t:
            return True
        if alt == "array-number" and t == "array" and all(jtype(x) == "number" for x in v):
            return True
        if alt == "array-string" and t == "array" and all(jtype(x) == "string" for x in v):
            return True
    return False


class Interp(object):
    def __init__(self):
        self.flags = set()

    # ---- expressions
    def ev(self, n, v):
        return getattr(self, "n_" + n[0])(n, v)

    def _all(self, thunks):
        out, errs = [], set()
        for t in thunks:
            try:
                out.append(t())
            except JError as e:
                errs |= e.classes
        if errs:
            raise JError(errs)
        return out

    def n_id(self, n, v):
        if isinstance(v, dict) and n[1] in v:
            return v[n[1]]
        return None

    n_qid = n_id

    def n_cur(self, n, v):
        return v

    n_elem = n_cur

    def n_lit(self, n, v):
        return n[1]

    def n_raw(self, n, v):
        return n[1]

    def n_paren(self, n, v):
        return self.ev(n[1], v)

    def n_sub(self, n, v):
        return self.ev(n[2], self.ev(n[1], v))

    def n_pipe(self, n, v):
        return self.ev(n[2], self.ev(n[1], v))

    def n_idx(self, n, v):
        b = self.ev(n[1], v)
        if not isinstance(b, list):
            return None
        i = n[2]
        if i < 0:
            i += len(b)
        if 0 <= i < len(b):
            return b[i]
        return None

    def _project(self, items, rhs):
        res = self._all([(lambda e=e: self.ev(rhs, e)) for e in items])
        return [x for x in res if x is not None]

    def n_slice(self, n, v):
        b = self.ev(n[1], v)
        a, e, s = n[2]
        if not isinstance(b, list):
            return None
        if s == 0:
            raise JError(ERR_VALUE)
        return self._project(b[slice(a, e, s)], n[3])

    def n_proj(self, n, v):
        b = self.ev(n[1], v)
        if not isinstance(b, list):
            return None
        return self._project(b, n[2])

    def n_vproj(self, n, v):
        b = self.ev(n[1], v)
        if not isinstance(b, dict):
            return None
        if len(b) > 1:
            self.flags.add("order")
        return self._project([b[k] for k in _okeys(b)], n[2])

    def n_flat(self, n, v):
        b = self.ev(n[1], v)
        if not isinstance(b, list):
            return None
        merged = []
        for e in b:
            if isinstance(e, list):
                merged.extend(e)
            else:
                merged.append(e)
        return self._project(merged, n[2])

    def n_filt(self, n, v):
        b = self.ev(n[1], v)
        if not isinstance(b, list):
            return None
        keep = self._all([(lambda e=e: truthy(self.ev(n[2], e))) for e in b])
        return self._project([e for e, k in zip(b, keep) if k], n[3])

    def n_or(self, n, v):
        a = self.ev(n[1], v)
        return a if truthy(a) else self.ev(n[2], v)

    def n_and(self, n, v):
        a = self.ev(n[1], v)
        return self.ev(n[2], v) if truthy(a) else a

    def n_not(self, n, v):
        return not truthy(self.ev(n[1], v))

    def n_cmp(self, n, v):
        op = n[1]
        a, b = self._all([lambda: self.ev(n[2], v), lambda: self.ev(n[3], v)])
        if op == "==":
            return deep_eq(a, b)
        if op == "!=":
            return not deep_eq(a, b)
        if jtype(a) != "number" or jtype(b) != "number":
            return None  # ordering operators are only defined for numbers
        return {"<": a < b, "<=": a <= b, ">": a > b, ">=": a >= b}[op]

    def n_mlist(self, n, v):
        if v is None:
            return None
        return self._all([(lambda e=e: self.ev(e, v)) for e in n[1]])

    def n_mhash(self, n, v):
        if v is None:
            return None
        vals = self._all([(lambda e=e: self.ev(e, v)) for k, e in n[1]])
        return dict((k, x) for (k, e), x in zip(n[1], vals))

    def n_expref(self, n, v):
        raise JError(ERR_SYNTAX)  # only meaningful as a function argument

    def n_fn(self, n, v):
        name, args = n[1], n[2]
        if name not in SIGNATURES:
            raise JError(ERR_UNKNOWN)
        sig = SIGNATURES[name]
        variadic = len(sig) > 1 and sig[1]
        if variadic:
            if len(args) == 0:
                # merge: "accepts 0 or more objects"; not_null(): the compliance file shipped with jsoncons
                # expects null where upstream expects invalid-arity
                raise Abstain("variadic function called without arguments")
        elif len(args) != len(sig[0]):
            raise JError(ERR_ARITY)
        vals = self._all([(lambda a=a: Expref(a[1]) if a[0] == "expref" else self.ev(a, v)) for a in args])
        specs = sig[0] * len(vals) if variadic else sig[0]
        for x, spec in zip(vals, specs):
            if not _match(x, spec):
                raise JError(ERR_TYPE)
        return getattr(self, "f_" + name)(*vals)

    # ---- built-in functions
    def f_abs(self, x):
        return abs(x)

    def f_avg(self, a):
        return sum(a) / len(a) if a else None

    def f_ceil(self, x):
        return math.ceil(x)

    def f_floor(self, x):
        return math.floor(x)

    def f_contains(self, subject, search):
        if isinstance(subject, str):
            if not isinstance(search, str):
                raise Abstain("contains(string, non-string)")
            return search in subject
        return any(deep_eq(x, search) for x in subject)

    def f_ends_with(self, s, suffix):
        return s.endswith(suffix)

    def f_starts_with(self, s, prefix):
        return s.startswith(prefix)

    def f_join(self, glue, a):
        return glue.join(a)

    def f_keys(self, o):
        if len(o) > 1:
            self.flags.add("order")
        return _okeys(o)

    def f_values(self, o):
        if len(o) > 1:
            self.flags.add("order")
        return [o[k] for k in _okeys(o)]

    def f_length(self, x):
        return len(x)

    def f_map(self, ex, a):
        return self._all([(lambda e=e: self.ev(ex.node, e)) for e in a])

    def f_max(self, a):
        return max(a) if a else None

    def f_min(self, a):
        return min(a) if a else None

    def _keys(self, a, ex):
        ks = self._all([(lambda e=e: self.ev(ex.node, e)) for e in a])
        if ks:
            t = jtype(ks[0])
            if t not in ("number", "string") or any(jtype(k) != t for k in ks):
                raise JError(ERR_TYPE)
        return ks

    def f_max_by(self, a, ex):
        ks = self._keys(a, ex)
        if not a:
            return None
        m = max(ks)
        if sum(1 for k in ks if k == m) > 1:
            self.flags.add("tie")
        return a[ks.index(m)]

    def f_min_by(self, a, ex):
        ks = self._keys(a, ex)
        if not a:
            return None
        m = min(ks)
        if sum(1 for k in ks if k == m) > 1:
            self.flags.add("tie")
        return a[ks.index(m)]

    def f_sort_by(self, a, ex):
        ks = self._keys(a, ex)
        if len(set(ks)) != len(ks):
            self.flags.add("tie")
        order = sorted(range(len(a)), key=lambda i: ks[i])
        return [a[i] for i in order]

    def f_merge(self, *objs):
        out = {}
        for o in objs:
            out.update(o)
        return out

    def f_not_null(self, *xs):
        for x in xs:
            if x is not None:
                return x
        return None

    def f_reverse(self, x):
        return x[::-1]

    def f_sort(self, a):
        return sorted(a)

    def f_sum(self, a):
        return sum(a)

    def f_to_array(self, x):
        return x if isinstance(x, list) else [x]

    def f_to_string(self, x):
        if isinstance(x, str):
            return x
        if _has_wide_object(x):
            self.flags.add("tostring_order")
        if _has_number(x):
            self.flags.add("tostring_number")   # "6" or "6.0": the JSON text of a number is not unique
        return json.dumps(x, separators=(",", ":"), sort_keys=True, ensure_ascii=False)

    def f_to_number(self, x):
        t = jtype(x)
        if t == "number":
            return x
        if t == "string":
            m = _NUM_RE.match(x)
            if not m:
                return None
            return float(x) if (m.group(2) or m.group(3)) else int(x)
        return None

    def f_type(self, x):
        return jtype(x)


class Outcome(object):
    """kind: 'value' | 'error' | 'abstain'"""
    __slots__ = ("kind", "value", "classes", "flags", "why")

    def __init__(self, kind, value=None, classes=frozenset(), flags=frozenset(), why=""):
        self.kind, self.value, self.classes, self.flags, self.why = kind, value, classes, flags, why

    def __repr__(self):
        if self.kind == "value":
            return "value %s" % json.dumps(self.value, ensure_ascii=False, sort_keys=True)
        if self.kind == "error":
            return "error %s" % "/".join(sorted(self.classes))
        return "abstain (%s)" % self.why


def evaluate(ast, doc):
    it = Interp()
    try:
        v = it.ev(ast, doc)
        return Outcome("value", value=v, flags=frozenset(it.flags))
    except JError as e:
        return Outcome("error", classes=e.classes, flags=frozenset(it.flags))
    except Abstain as e:
        return Outcome("abstain", why=str(e), flags=frozenset(it.flags))


def walk(n):
    """all nodes of an AST"""
    yield n
    k = n[0]
    if k in ("sub", "pipe", "or", "and"):
        kids = [n[1], n[2]]
    elif k in ("idx", "not", "paren", "expref"):
        kids = [n[1]]
    elif k == "slice":
        kids = [n[1], n[3]]
    elif k in ("proj", "vproj", "flat"):
        kids = [n[1], n[2]]
    elif k == "filt":
        kids = [n[1], n[2], n[3]]
    elif k == "cmp":
        kids = [n[2], n[3]]
    elif k == "mlist":
        kids = list(n[1])
    elif k == "mhash":
        kids = [e for _, e in n[1]]
    elif k == "fn":
        kids = list(n[2])
    else:
        kids = []
    for c in kids:
        for x in walk(c):
            yield x


def static_errors(ast):
    """Error classes decidable from the expression text alone (an implementation may report them when
    compiling, whether or not evaluation would reach the offending sub-expression)."""
    s = set()
    for n in walk(ast):
        if n[0] == "fn":
            if n[1] not in SIGNATURES:
                s.add(ERR_UNKNOWN)
            elif not fn_arity_ok(n[1], len(n[2])):
                s.add(ERR_ARITY)
        elif n[0] == "slice" and n[2][2] == 0:
            s.add(ERR_VALUE)
    return s


# ---------------------------------------------------------------------------- renderer

_UNQUOTED = re.compile(r"[A-Za-z_][A-Za-z0-9_]*\Z")
_POSTFIX_SAFE = ("id", "qid", "cur", "lit", "raw", "mlist", "mhash", "fn", "paren", "sub", "idx", "elem")
_PROJECTIONS = ("slice", "proj", "vproj", "flat", "filt")
_PREC = {"pipe": 1, "or": 2, "and": 3, "cmp": 5}


def _ident(name, force_quote=False, escape=False):
    if not force_quote and _UNQUOTED.match(name):
        return name
    return json.dumps(name, ensure_ascii=bool(escape))


def _literal(v):
    return "`" + json.dumps(v, ensure_ascii=False, separators=(", ", ": ")).replace("`", "\\`") + "`"


def _slice_text(p):
    a, b, c = p
    s = ("" if a is None else str(a)) + ":" + ("" if b is None else str(b))
    if c is not None:
        s += ":" + str(c)
    return s


def render(n):
    return _r(n, False)


def _post(L, rhs):
    """text of L such that a postfix construct appended to it applies to the whole of L"""
    if L[0] in _POSTFIX_SAFE:
        return _r(L, rhs)
    if rhs:
        raise Unrenderable("spine of a projection's right-hand side must consist of postfix constructs")
    return "(" + _r(L, False) + ")"


def _operand(n, parent_prec, right_side):
    k = n[0]
    if k == "not":
        return _r(n, False)          # `!x` as operand of a binary operator: binds tighter than all of them
    p = _PREC.get(k)
    if p is None:
        return _r(n, False)
    if p < parent_prec or (p == parent_prec and (right_side or k == "cmp")):
        return "(" + _r(n, False) + ")"
    return _r(n, False)


def _r(n, rhs):
    k = n[0]
    if k == "elem":
        return ""
    if rhs and k not in ("sub", "idx", "slice", "proj", "vproj", "filt"):
        raise Unrenderable("%s on the spine of a projection's right-hand side" % k)
    if k == "id":
        return _ident(n[1])
    if k == "qid":
        return _ident(n[1], True, n[2])
    if k == "cur":
        return "@"
    if k == "lit":
        return _literal(n[1])
    if k == "raw":
        text = "'" + n[1].replace("'", "\\'") + "'"
        try:
            toks = _lex(text)
        except SyntaxErr:
            toks = []
        if toks[:1] != [("lit", n[1])] or len(toks) != 2:
            raise Unrenderable("raw string %r has no rendering" % n[1])   # e.g. a lone backslash before the closing quote
        return text
    if k == "paren":
        return "(" + _r(n[1], False) + ")"
    if k == "sub":
        L, X = n[1], n[2]
        if X[0] not in ("id", "qid", "mlist", "mhash", "fn"):
            raise Unrenderable("right operand of '.' is %s" % X[0])
        if L[0] == "elem":
            if not rhs:
                raise Unrenderable("'.x' at the start of an expression")
            return "." + _r(X, False)
        return _post(L, rhs) + "." + _r(X, False)
    if k == "idx":
        return _post(n[1], rhs) + "[%d]" % n[2]
    if k == "slice":
        return _post(n[1], rhs) + "[" + _slice_text(n[2]) + "]" + _r(n[3], True)
    if k == "proj":
        return _post(n[1], rhs) + "[*]" + _r(n[2], True)
    if k == "vproj":
        if n[1][0] == "elem" and not rhs:
            return "*" + _r(n[2], True)
        return _post(n[1], rhs) + ".*" + _r(n[2], True)
    if k == "filt":
        return _post(n[1], rhs) + "[?" + _r(n[2], False) + "]" + _r(n[3], True)
    if k == "flat":
        L = n[1]
        # `[]` ends the right-hand side of a projection on its left and applies to the projection's result
        left = _r(L, False) if (L[0] in _POSTFIX_SAFE or L[0] in _PROJECTIONS) else "(" + _r(L, False) + ")"
        return left + "[]" + _r(n[2], True)
    if k in ("pipe", "or", "and"):
        sym = {"pipe": " | ", "or": " || ", "and": " && "}[k]
        return _operand(n[1], _PREC[k], False) + sym + _operand(n[2], _PREC[k], True)
    if k == "cmp":
        return _operand(n[2], 5, False) + " " + n[1] + " " + _operand(n[3], 5, True)
    if k == "not":
        A = n[1]
        # the operand of `!` is parenthesised unless it is an atom (how far an unparenthesised operand
        # extends over '.'/'[' is not fixed by the specification's grammar)
        if A[0] in ("id", "qid", "cur", "lit", "raw", "paren", "not", "mlist", "mhash", "fn"):
            return "!" + _r(A, False)
        return "!(" + _r(A, False) + ")"
    if k == "mlist":
        if not n[1]:
            raise Unrenderable("empty multiselect list")
        return "[" + ", ".join(_r(e, False) for e in n[1]) + "]"
    if k == "mhash":
        if not n[1]:
            raise Unrenderable("empty multiselect hash")
        return "{" + ", ".join(_ident(key) + ": " + _r(e, False) for key, e in n[1]) + "}"
    if k == "fn":
        return n[1] + "(" + ", ".join(_r(a, False) for a in n[2]) + ")"
    if k == "expref":
        A = n[1]
        if A[0] in _PREC:
            return "&(" + _r(A, False) + ")"
        return "&" + _r(A, False)
    raise Unrenderable(k)


# ---------------------------------------------------------------------------- minimal reference parser
# (top-down operator precedence, binding powers as implied by the grammar's precedence notes)

_BP = {"eof": 0, "uid": 0, "qid": 0, "lit": 0, "rbracket": 0, "rparen": 0, "comma": 0, "rbrace": 0, "number": 0,
       "current": 0, "expref": 0, "colon": 0, "pipe": 1, "or": 2, "and": 3, "eq": 5, "gt": 5, "lt": 5, "gte": 5,
       "lte": 5, "ne": 5, "flatten": 9, "star": 20, "filter": 21, "dot": 40, "not": 45, "lbrace": 50,
       "lbracket": 55, "lparen": 60}
_CMP = {"eq": "==", "ne": "!=", "lt": "<", "lte": "<=", "gt": ">", "gte": ">="}
_SIMPLE = {".": "dot", "*": "star", "]": "rbracket", ",": "comma", ":": "colon", "@": "current", "(": "lparen",
           ")": "rparen", "{": "lbrace", "}": "rbrace"}


def _lex(s):
    toks = []
    i, n = 0, len(s)
    while i < n:
        c = s[i]
        if c in " \t\r\n":
            i += 1
        elif c in _SIMPLE:
            toks.append((_SIMPLE[c], c))
            i += 1
        elif c.isascii() and (c.isalpha() or c == "_"):
            j = i + 1
            while j < n and s[j].isascii() and (s[j].isalnum() or s[j] == "_"):
                j += 1
            toks.append(("uid", s[i:j]))
            i = j
        elif c == "[":
            if s[i + 1:i + 2] == "]":
                toks.append(("flatten", "[]"))
                i += 2
            elif s[i + 1:i + 2] == "?":
                toks.append(("filter", "[?"))
                i += 2
            else:
                toks.append(("lbracket", "["))
                i += 1
        elif c == "'":
            j = i + 1
            buf = []
            while j < n and s[j] != "'":
                if s[j] == "\\" and s[j + 1:j + 2] == "'":
                    buf.append("'")
                    j += 2
                elif s[j] == "\\" and j + 1 < n:
                    buf.append(s[j:j + 2])   # any other escaped character is kept verbatim, backslash included
                    j += 2
                else:
                    buf.append(s[j])
                    j += 1
            if j >= n:
                raise SyntaxErr("unterminated raw string")
            toks.append(("lit", "".join(buf)))
            i = j + 1
        elif c == '"':
            j = i + 1
            while j < n and s[j] != '"':
                j += 2 if s[j] == "\\" else 1
            if j >= n:
                raise SyntaxErr("unterminated quoted identifier")
            try:
                v = json.loads(s[i:j + 1])
            except ValueError:
                raise SyntaxErr("bad quoted identifier")
            toks.append(("qid", v))
            i = j + 1
        elif c == "`":
            j = i + 1
            buf = []
            while j < n and s[j] != "`":
                if s[j] == "\\" and s[j + 1:j + 2] == "`":
                    buf.append("`")
                    j += 2
                else:
                    buf.append(s[j])
                    j += 1
            if j >= n:
                raise SyntaxErr("unterminated literal")
            try:
                v = json.loads("".join(buf))
            except ValueError:
                raise SyntaxErr("literal is not JSON")
            toks.append(("lit", v))
            i = j + 1
        elif c == "-" or c.isdigit():
            j = i + 1
            while j < n and s[j].isdigit():
                j += 1
            if s[i:j] == "-":
                raise SyntaxErr("lone minus")
            toks.append(("number", int(s[i:j])))
            i = j
        elif c == "|":
            if s[i + 1:i + 2] == "|":
                toks.append(("or", "||"))
                i += 2
            else:
                toks.append(("pipe", "|"))
                i += 1
        elif c == "&":
            if s[i + 1:i + 2] == "&":
                toks.append(("and", "&&"))
                i += 2
            else:
                toks.append(("expref", "&"))
                i += 1
        elif c in "<>=!":
            if s[i + 1:i + 2] == "=":
                toks.append(({"<": "lte", ">": "gte", "=": "eq", "!": "ne"}[c], s[i:i + 2]))
                i += 2
            elif c == "<":
                toks.append(("lt", c))
                i += 1
            elif c == ">":
                toks.append(("gt", c))
                i += 1
            elif c == "!":
                toks.append(("not", c))
                i += 1
            else:
                raise SyntaxErr("single =")
        else:
            raise SyntaxErr("unexpected character %r" % c)
    toks.append(("eof", ""))
    return toks


class _Parser(object):
    def __init__(self, text):
        self.t = _lex(text)
        self.i = 0

    def cur(self):
        return self.t[self.i][0]

    def look(self, k):
        j = min(self.i + k, len(self.t) - 1)
        return self.t[j][0]

    def adv(self):
        tok = self.t[self.i]
        if self.i < len(self.t) - 1:
            self.i += 1
        return tok

    def match(self, kind):
        if self.cur() != kind:
            raise SyntaxErr("expected %s, got %s" % (kind, self.cur()))
        return self.adv()

    def parse(self):
        e = self.expr(0)
        if self.cur() != "eof":
            raise SyntaxErr("trailing %s" % self.cur())
        return e

    def expr(self, bp):
        left = self.nud(self.adv())
        while bp < _BP[self.cur()]:
            left = self.led(self.adv(), left)
        return left

    def nud(self, tok):
        k, v = tok
        if k == "lit":
            return ("lit", v)
        if k == "uid":
            return ("id", v)
        if k == "qid":
            if self.cur() == "lparen":
                raise SyntaxErr("quoted identifier as function name")
            return ("id", v)
        if k == "current":
            return ("cur",)
        if k == "star":
            right = ("cur",) if self.cur() == "rbracket" else self.proj_rhs(_BP["star"])
            return ("vproj", ("cur",), right)
        if k == "filter":
            return self.led(tok, ("cur",))
        if k == "lbrace":
            return self.mhash()
        if k == "lparen":
            e = self.expr(0)
            self.match("rparen")
            return ("paren", e)
        if k == "flatten":
            return ("flat", ("cur",), self.proj_rhs(_BP["flatten"]))
        if k == "not":
            return ("not", self.expr(_BP["not"]))
        if k == "lbracket":
            if self.cur() in ("number", "colon"):
                return self.index_or_slice(("cur",))
            if self.cur() == "star" and self.look(1) == "rbracket":
                self.adv()
                self.adv()
                return ("proj", ("cur",), self.proj_rhs(_BP["star"]))
            return self.mlist()
        if k == "expref":
            return ("expref", self.expr(_BP["expref"]))
        raise SyntaxErr("unexpected %s" % k)

    def led(self, tok, left):
        k, v = tok
        if k == "dot":
            if self.cur() != "star":
                return ("sub", left, self.dot_rhs(_BP["dot"]))
            self.adv()
            return ("vproj", left, self.proj_rhs(_BP["dot"]))
        if k == "pipe":
            return ("pipe", left, self.expr(_BP["pipe"]))
        if k == "or":
            return ("or", left, self.expr(_BP["or"]))
        if k == "and":
            return ("and", left, self.expr(_BP["and"]))
        if k in _CMP:
            return ("cmp", _CMP[k], left, self.expr(_BP[k]))
        if k == "lparen":
            if left[0] != "id":
                raise SyntaxErr("call of a non-identifier")
            args = []
            while self.cur() != "rparen":
                args.append(self.expr(0))
                if self.cur() == "comma":
                    self.adv()
                    if self.cur() == "rparen":
                        raise SyntaxErr("trailing comma")
                elif self.cur() != "rparen":
                    raise SyntaxErr("expected , or )")
            self.match("rparen")
            return ("fn", left[1], args)
        if k == "filter":
            cond = self.expr(0)
            self.match("rbracket")
            right = ("cur",) if self.cur() == "flatten" else self.proj_rhs(_BP["filter"])
            return ("filt", left, cond, right)
        if k == "flatten":
            return ("flat", left, self.proj_rhs(_BP["flatten"]))
        if k == "lbracket":
            if self.cur() in ("number", "colon"):
                return self.index_or_slice(left)
            self.match("star")
            self.match("rbracket")
            return ("proj", left, self.proj_rhs(_BP["star"]))
        raise SyntaxErr("unexpected %s" % k)

    def index_or_slice(self, left):
        if self.look(0) == "colon" or self.look(1) == "colon":
            parts = [None, None, None]
            idx = 0
            while self.cur() != "rbracket" and idx < 3:
                if self.cur() == "colon":
                    idx += 1
                    if idx == 3:
                        raise SyntaxErr("too many colons")
                    self.adv()
                elif self.cur() == "number":
                    parts[idx] = self.adv()[1]
                else:
                    raise SyntaxErr("bad slice")
            self.match("rbracket")
            return ("slice", left, tuple(parts), self.proj_rhs(_BP["star"]))
        n = self.match("number")[1]
        self.match("rbracket")
        return ("idx", left, n)

    def proj_rhs(self, bp):
        c = self.cur()
        if _BP[c] < 10:
            return ("cur",)
        if c in ("lbracket", "filter"):
            return self.expr(bp)
        if c == "dot":
            self.adv()
            return self.dot_rhs(bp)
        raise SyntaxErr("bad projection rhs %s" % c)

    def dot_rhs(self, bp):
        c = self.cur()
        if c in ("uid", "qid", "star"):
            return self.expr(bp)
        if c == "lbracket":
            self.adv()
            return self.mlist()
        if c == "lbrace":
            self.adv()
            return self.mhash()
        raise SyntaxErr("bad rhs of '.': %s" % c)

    def mlist(self):
        items = []
        while True:
            items.append(self.expr(0))
            if self.cur() == "rbracket":
                break
            self.match("comma")
        self.match("rbracket")
        return ("mlist", items)

    def mhash(self):
        pairs = []
        while True:
            if self.cur() not in ("uid", "qid"):
                raise SyntaxErr("bad key %s" % self.cur())
            key = self.adv()[1]
            self.match("colon")
            pairs.append((key, self.expr(0)))
            if self.cur() == "comma":
                self.adv()
            elif self.cur() == "rbrace":
                self.adv()
                break
            else:
                raise SyntaxErr("expected , or }")
        return ("mhash", pairs)


def parse(text):
    return _Parser(text).parse()


# ---------------------------------------------------------------------------- model self-test

# Compliance cases shipped with jsoncons whose expectation is not the specification's (each justified):
_COMPLIANCE_SKIP = {
}


def selftest(compliance_dir):
    """Run every case of the shipped compliance files through parse() + evaluate().
    Returns (number of cases, list of failure descriptions)."""
    n, fails, skipped = 0, [], 0
    for fn in sorted(os.listdir(compliance_dir)):
        if not fn.endswith(".json"):
            continue
        with open(os.path.join(compliance_dir, fn), encoding="utf-8") as fh:
            groups = json.load(fh)
        for g in groups:
            doc = g["given"]
            for c in g["cases"]:
                if "result" not in c and "error" not in c:
                    continue  # benchmark-only entries
                ex = c["expression"]
                n += 1
                if (fn, ex) in _COMPLIANCE_SKIP:
                    skipped += 1
                    continue
                try:
                    ast = parse(ex)
                    out = evaluate(ast, doc)
                except SyntaxErr:
                    out = Outcome("error", classes=frozenset([ERR_SYNTAX]))
                st = set()
                if out.kind != "error" or ERR_SYNTAX not in out.classes:
                    st = static_errors(ast)
                if "error" in c:
                    want = c["error"]
                    ok = (out.kind == "error" and want in out.classes) or want in st or out.kind == "abstain"
                else:
                    ok = out.kind == "abstain" or (out.kind == "value" and deep_eq(out.value, c["result"]))
                    if not ok and out.kind == "value" and "order" in out.flags:
                        ok = multiset_eq(out.value, c["result"])
                if not ok:
                    fails.append("%s: %s => %r, expected %s" % (fn, ex, out, json.dumps(c.get("result", c.get("error")))))
    return n, fails, skipped


if __name__ == "__main__":
    import sys
    d = sys.argv[1] if len(sys.argv) > 1 else "/repo/test/jmespath/input/compliance"
    n, fails, skipped = selftest(d)
    for f in fails:
        print("FAIL", f)
    print("%d cases, %d failures, %d skipped" % (n, len(fails), skipped))
