"""Reference MessagePack codec written from the MessagePack specification (2013 revision with
str/bin/ext and the timestamp extension type -1); stdlib only.

decode(data) -> ("OK", value) | ("ILL", class) | ("UNSPEC", why)

  ILL     truncated object, the never-used type byte 0xc1, invalid UTF-8 in a str.
  UNSPEC  bytes after the first object, map keys that are not str, duplicate keys, extension
          type -1 with a payload that is not a 4/8/12-byte timestamp or with nanoseconds > 999999999.
  OK      ints -> ('int', n); float32/float64 -> ('dbl', bits); str -> ('str'); bin -> ('bin');
          ext with application type t -> ('bin', (data, t & 0xff), ext); timestamp -> ('ts', nanoseconds).
"""
import struct
from lib import mvtext as mv


class Ill(Exception):
    def __init__(self, cls):
        Exception.__init__(self, cls)
        self.cls = cls


class _St(object):
    __slots__ = ("b", "n", "pos", "unspec", "marks")

    def __init__(self, b, marks):
        self.b = b
        self.n = len(b)
        self.pos = 0
        self.unspec = None
        self.marks = marks

    def note(self, why):
        if self.unspec is None:
            self.unspec = why


def _take(st, n):
    p = st.pos
    if n > st.n - p:
        raise Ill("truncated")
    st.pos = p + n
    return st.b[p:p + n]


def _uint(st, n):
    return int.from_bytes(_take(st, n), "big")


def _sint(st, n):
    return int.from_bytes(_take(st, n), "big", signed=True)


def _str(st, n):
    d = bytes(_take(st, n))
    try:
        d.decode("utf-8")
    except UnicodeDecodeError:
        raise Ill("utf8")
    return ('str', d, 0)


def _ext(st, n):
    t = _sint(st, 1)
    d = bytes(_take(st, n))
    if t != -1:
        return ('bin', (d, t & 0xff), mv.TAG_EXT)
    if n == 4:
        return ('ts', int.from_bytes(d, "big") * 1000000000, 0)
    if n == 8:
        x = int.from_bytes(d, "big")
        ns = x >> 34
        sec = x & 0x3ffffffff
        if ns > 999999999:
            st.note("timestamp-nanoseconds-out-of-range")
            return None
        return ('ts', sec * 1000000000 + ns, 0)
    if n == 12:
        ns = int.from_bytes(d[:4], "big")
        sec = int.from_bytes(d[4:], "big", signed=True)
        if ns > 999999999:
            st.note("timestamp-nanoseconds-out-of-range")
            return None
        return ('ts', sec * 1000000000 + ns, 0)
    st.note("timestamp-ext-of-unknown-length")
    return None


def _array(st, n):
    items = []
    ok = True
    i = 0
    while i < n:
        e = _obj(st)
        if e is None:
            ok = False
        items.append(e)
        i += 1
    return ('arr', items, 0) if ok else None


def _map(st, n):
    items = []
    ok = True
    seen = set()
    i = 0
    while i < n:
        k = _obj(st)
        if k is not None and k[0] != 'str':
            st.note("non-str-key")
            k = None
        v = _obj(st)
        if k is None or v is None:
            ok = False
        else:
            if k[1] in seen:
                st.note("duplicate-key")
                ok = False
            seen.add(k[1])
            items.append((k[1], v))
        i += 1
    return ('obj', items, 0) if ok else None


def _obj(st):
    p = st.pos
    if p >= st.n:
        raise Ill("truncated")
    t = st.b[p]
    st.pos = p + 1
    if st.marks is not None:
        st.marks.append((p, t))
    if t <= 0x7f:
        return ('int', t, 0)
    if t <= 0x8f:
        return _map(st, t & 0x0f)
    if t <= 0x9f:
        return _array(st, t & 0x0f)
    if t <= 0xbf:
        return _str(st, t & 0x1f)
    if t >= 0xe0:
        return ('int', t - 256, 0)
    if t == 0xc0:
        return ('null', None, 0)
    if t == 0xc1:
        raise Ill("never-used-type")
    if t == 0xc2:
        return ('bool', False, 0)
    if t == 0xc3:
        return ('bool', True, 0)
    if t == 0xc4:
        return ('bin', (bytes(_take(st, _uint(st, 1))), None), 0)
    if t == 0xc5:
        return ('bin', (bytes(_take(st, _uint(st, 2))), None), 0)
    if t == 0xc6:
        return ('bin', (bytes(_take(st, _uint(st, 4))), None), 0)
    if t == 0xc7:
        return _ext(st, _uint(st, 1))
    if t == 0xc8:
        return _ext(st, _uint(st, 2))
    if t == 0xc9:
        return _ext(st, _uint(st, 4))
    if t == 0xca:
        return ('dbl', mv.f32_to_f64_bits(_uint(st, 4)), 0)
    if t == 0xcb:
        return ('dbl', _uint(st, 8), 0)
    if t == 0xcc:
        return ('int', _uint(st, 1), 0)
    if t == 0xcd:
        return ('int', _uint(st, 2), 0)
    if t == 0xce:
        return ('int', _uint(st, 4), 0)
    if t == 0xcf:
        return ('int', _uint(st, 8), 0)
    if t == 0xd0:
        return ('int', _sint(st, 1), 0, 'i')
    if t == 0xd1:
        return ('int', _sint(st, 2), 0, 'i')
    if t == 0xd2:
        return ('int', _sint(st, 4), 0, 'i')
    if t == 0xd3:
        return ('int', _sint(st, 8), 0, 'i')
    if t == 0xd4:
        return _ext(st, 1)
    if t == 0xd5:
        return _ext(st, 2)
    if t == 0xd6:
        return _ext(st, 4)
    if t == 0xd7:
        return _ext(st, 8)
    if t == 0xd8:
        return _ext(st, 16)
    if t == 0xd9:
        return _str(st, _uint(st, 1))
    if t == 0xda:
        return _str(st, _uint(st, 2))
    if t == 0xdb:
        return _str(st, _uint(st, 4))
    if t == 0xdc:
        return _array(st, _uint(st, 2))
    if t == 0xdd:
        return _array(st, _uint(st, 4))
    if t == 0xde:
        return _map(st, _uint(st, 2))
    return _map(st, _uint(st, 4))    # 0xdf


def decode(data, marks=None):
    st = _St(bytes(data), marks)
    try:
        v = _obj(st)
    except Ill as e:
        return ("ILL", e.cls)
    if st.unspec is not None:
        return ("UNSPEC", st.unspec)
    if v is None:
        return ("UNSPEC", "abstained")
    if st.pos != st.n:
        return ("UNSPEC", "trailing-bytes")
    return ("OK", v)


# ---------------------------------------------------------------------------------------------
# encoder: every legal encoding

def _len_heads(n, fix, codes):
    """fix = (base, max) of the fix form or None; codes = [(type byte, width)...]"""
    out = []
    if fix is not None and n <= fix[1]:
        out.append(bytes([fix[0] | n]))
    for tb, w in codes:
        if n < (1 << (8 * w)):
            out.append(bytes([tb]) + n.to_bytes(w, "big"))
    return out


_product = mv.product


def encodings(v, mode="full", limit=1 << 30, child_mode=None, modes=None, path=()):
    """Every legal encoding ("full"/"reduced": all integer and length widths >= minimal; "min": the
    shortest one).  Encoder-side kinds: mvtext tuples, ('ts', ns, 0) and ('bin', (data, ext), TAG_EXT)."""
    if modes is not None:       # per-node modes: dict path -> mode, default "one" (= "min")
        mode = modes.get(path, "min")
    if mode == "one":
        mode = "min"
    if child_mode is None:
        child_mode = "reduced" if mode == "full" else "min"
    k, d = v[0], v[1]
    out = []
    if k == 'null':
        out = [b"\xc0"]
    elif k == 'bool':
        out = [b"\xc3" if d else b"\xc2"]
    elif k == 'int':
        if 0 <= d <= 0x7f:
            out.append(bytes([d]))
        if -32 <= d < 0:
            out.append(bytes([d + 256]))
        for tb, w in ((0xcc, 1), (0xcd, 2), (0xce, 4), (0xcf, 8)):
            if 0 <= d < (1 << (8 * w)):
                out.append(bytes([tb]) + d.to_bytes(w, "big"))
        for tb, w in ((0xd0, 1), (0xd1, 2), (0xd2, 4), (0xd3, 8)):
            if -(1 << (8 * w - 1)) <= d < (1 << (8 * w - 1)):
                out.append(bytes([tb]) + d.to_bytes(w, "big", signed=True))
    elif k == 'dbl':
        f = mv.f64_to_f32_bits(d)
        if f is not None:
            out.append(b"\xca" + f.to_bytes(4, "big"))
        out.append(b"\xcb" + d.to_bytes(8, "big"))
    elif k == 'str':
        out = [h + d for h in _len_heads(len(d), (0xa0, 31), ((0xd9, 1), (0xda, 2), (0xdb, 4)))]
    elif k == 'bin' and d[1] is None:
        out = [h + d[0] for h in _len_heads(len(d[0]), None, ((0xc4, 1), (0xc5, 2), (0xc6, 4)))]
    elif k == 'bin':
        body = bytes([d[1] & 0xff]) + d[0]
        n = len(d[0])
        fix = {1: 0xd4, 2: 0xd5, 4: 0xd6, 8: 0xd7, 16: 0xd8}.get(n)
        if fix is not None:
            out.append(bytes([fix]) + body)
        out += [h + body for h in _len_heads(n, None, ((0xc7, 1), (0xc8, 2), (0xc9, 4)))]
    elif k == 'ts':
        sec, ns = divmod(d, 1000000000)
        forms = []
        if ns == 0 and 0 <= sec < (1 << 32):
            forms.append(sec.to_bytes(4, "big"))
        if 0 <= sec < (1 << 34):
            forms.append(((ns << 34) | sec).to_bytes(8, "big"))
        if -(1 << 63) <= sec < (1 << 63):
            forms.append(ns.to_bytes(4, "big") + sec.to_bytes(8, "big", signed=True))
        for f in forms:
            out += list(encodings(('bin', (f, 0xff), mv.TAG_EXT), mode))
    elif k == 'arr':
        kids = [list(encodings(e, child_mode, limit, None, modes, path + (i,))) for i, e in enumerate(d)]
        for h in _len_heads(len(d), (0x90, 15), ((0xdc, 2), (0xdd, 4))):
            out += _product([[h]] + kids, limit)
            if mode == "min":
                break
    elif k == 'obj':
        kids = []
        for i, (kk, vv) in enumerate(d):
            kids.append(list(encodings(('str', kk, 0), child_mode, limit, None, modes, path + (i, 'k'))))
            kids.append(list(encodings(vv, child_mode, limit, None, modes, path + (i, 'v'))))
        for h in _len_heads(len(d), (0x80, 15), ((0xde, 2), (0xdf, 4))):
            out += _product([[h]] + kids, limit)
            if mode == "min":
                break
    else:
        raise ValueError("ref_msgpack cannot encode %r" % (k,))
    if mode == "min" and k not in ('arr', 'obj'):
        out = sorted(out, key=len)[:1]
    for e in out:
        if len(e) <= limit:
            yield e


def denote(v):
    return v


# ---------------------------------------------------------------------------------------------
# self test: examples from the specification text and round trips

def _i(x):
    return ('int', x, 0)


SPEC_VECTORS = [
    # the two examples on msgpack.org / in the README
    ("82a7636f6d70616374c3a6736368656d6100", ('obj', [(b"compact", ('bool', True, 0)), (b"schema", _i(0))], 0)),
    ("c0", ('null', None, 0)), ("c2", ('bool', False, 0)), ("c3", ('bool', True, 0)),
    ("00", _i(0)), ("7f", _i(127)), ("ff", _i(-1)), ("e0", _i(-32)),
    ("cc80", _i(128)), ("ccff", _i(255)), ("cd0100", _i(256)), ("cdffff", _i(65535)), ("ce00010000", _i(65536)),
    ("ceffffffff", _i(4294967295)), ("cf0000000100000000", _i(4294967296)), ("cfffffffffffffffff", _i(18446744073709551615)),
    ("d0df", _i(-33)), ("d080", _i(-128)), ("d1ff7f", _i(-129)), ("d18000", _i(-32768)), ("d2ffff7fff", _i(-32769)),
    ("d280000000", _i(-2147483648)), ("d3ffffffff7fffffff", _i(-2147483649)), ("d38000000000000000", _i(-9223372036854775808)),
    ("d07f", _i(127)), ("d3000000000000007f", _i(127)),
    ("ca3fc00000", ('dbl', mv.f64_bits(1.5), 0)), ("cb3ff8000000000000", ('dbl', mv.f64_bits(1.5), 0)),
    ("a0", ('str', b"", 0)), ("a161", ('str', b"a", 0)), ("d90161", ('str', b"a", 0)), ("da000161", ('str', b"a", 0)),
    ("db0000000161", ('str', b"a", 0)),
    ("c400", ('bin', (b"", None), 0)), ("c403010203", ('bin', (b"\x01\x02\x03", None), 0)), ("c5000101", ('bin', (b"\x01", None), 0)),
    ("c60000000101", ('bin', (b"\x01", None), 0)),
    ("90", ('arr', [], 0)), ("93010203", ('arr', [_i(1), _i(2), _i(3)], 0)), ("dc000101", ('arr', [_i(1)], 0)),
    ("dd0000000101", ('arr', [_i(1)], 0)),
    ("80", ('obj', [], 0)), ("81a16101", ('obj', [(b"a", _i(1))], 0)), ("de0001a16101", ('obj', [(b"a", _i(1))], 0)),
    ("df00000001a16101", ('obj', [(b"a", _i(1))], 0)),
    ("d40548", ('bin', (b"\x48", 5), mv.TAG_EXT)), ("c7030501020 3".replace(" ", ""), ('bin', (b"\x01\x02\x03", 5), mv.TAG_EXT)),
    ("d4fe00", ('bin', (b"\x00", 0xfe), mv.TAG_EXT)),
    # timestamp 32 / 64 / 96
    ("d6ff00000001", ('ts', 1000000000, 0)),
    ("d7ff0000000400000001", ('ts', 1000000001, 0)),
    ("d7ff773593fc00000001", ('ts', 1499999999, 0)),        # nsec 499999999 << 34 | 1
    ("c70cff000000010000000000000001", ('ts', 1000000001, 0)),
    ("c70cff1dcd6500ffffffffffffffff", ('ts', -500000000, 0)),  # -1 s + 0.5 s
    ("c70cff00000000ffffffffffffffff", ('ts', -1000000000, 0)),
]
SPEC_ILL = ["", "c1", "91", "92c0", "81a161", "a161"[:2], "d9", "d901", "da00", "db000000", "c4", "c401", "c7", "c701", "c70105", "d4", "d405",
            "cc", "cd00", "ce000000", "cf00000000000000", "d0", "d1", "ca000000", "cb", "dc", "dc00", "dd000000", "de00", "df000000",
            "91c1", "a1ff", "a2c328", "81a1ff00", "d6ff000000"]
SPEC_UNSPEC = ["0000", "8101c0", "82a16101a16102", "d4ff00", "d7ffee6b280000000000", "c0c1"]


def selftest(values=()):
    errs = []
    for hx, want in SPEC_VECTORS:
        got = decode(bytes.fromhex(hx))
        if got[0] != "OK" or not mv.same(want, got[1]):
            errs.append("msgpack vector %s: want %r got %r" % (hx, want, got))
    for hx in SPEC_ILL:
        got = decode(bytes.fromhex(hx))
        if got[0] != "ILL":
            errs.append("msgpack ill-formed vector %s: got %r" % (hx, got))
    for hx in SPEC_UNSPEC:
        got = decode(bytes.fromhex(hx))
        if got[0] != "UNSPEC":
            errs.append("msgpack vector %s: want UNSPEC got %r" % (hx, got))
    for v in values:
        for e in encodings(v, "full", 64):
            got = decode(e)
            if got[0] != "OK" or not mv.same(v, got[1]):
                errs.append("msgpack round trip %r via %s: got %r" % (v, e.hex(), got))
                if len(errs) > 20:
                    return errs
    return errs
