"""Reference UBJSON codec written from the Universal Binary JSON specification, draft 12; stdlib only.

decode(data) -> ("OK", value) | ("ILL", class) | ("UNSPEC", why)

  ILL     truncated value, unknown marker where a value (or a length type) is expected, a stray
          ']' / '}' where a value is expected, negative length or count, '$' type not followed by
          '#' count, invalid UTF-8 in a string / key / char (char > 127).
  UNSPEC  bytes after the first value; the no-op marker 'N' anywhere (from the point where it is met:
          whether it counts as an element of a counted container is not something the statement
          settles); duplicate keys; 'H' payload that is not a JSON number; '$' with a marker that is
          not a value type on an empty container; counts of payload-free elements beyond REF_MAX_COUNT.
  OK      i/U/I/l/L -> ('int'); d/D -> ('dbl'); C/S -> ('str'); H -> ('num', value, bigint|bigdec);
          Z -> null; T/F -> bool; containers in all three forms (plain, counted, typed+counted).
"""
import re
from fractions import Fraction
from lib import mvtext as mv

REF_MAX_COUNT = 70000
_JSON_NUMBER = re.compile(rb"^-?(0|[1-9][0-9]*)(\.[0-9]+)?([eE][+-]?[0-9]+)?$")
_BASE10 = re.compile(rb"^-?[0-9]+$")
_INT_W = {0x69: 1, 0x55: 1, 0x49: 2, 0x6c: 4, 0x4c: 8}      # i U I l L
_VALUE_MARKERS = set(b"ZNTFiUIlLdDHCS[{")


class Ill(Exception):
    def __init__(self, cls):
        Exception.__init__(self, cls)
        self.cls = cls


class _St(object):
    __slots__ = ("b", "n", "pos", "unspec", "opaque", "marks")

    def __init__(self, b, marks):
        self.b = b
        self.n = len(b)
        self.pos = 0
        self.unspec = None
        self.opaque = False
        self.marks = marks

    def note(self, why, opaque=False):
        if self.unspec is None:
            self.unspec = why
        if opaque:
            self.opaque = True


def _take(st, n):
    p = st.pos
    if n > st.n - p:
        raise Ill("truncated")
    st.pos = p + n
    return st.b[p:p + n]


def _byte(st):
    p = st.pos
    if p >= st.n:
        raise Ill("truncated")
    st.pos = p + 1
    return st.b[p]


def _peek(st):
    if st.pos >= st.n:
        raise Ill("truncated")
    return st.b[st.pos]


def _int_payload(st, t):
    w = _INT_W[t]
    return int.from_bytes(_take(st, w), "big", signed=(t != 0x55))


def _length(st, what):
    p = st.pos
    t = _byte(st)
    if t not in _INT_W:
        raise Ill(what + "-type-not-integer")
    n = _int_payload(st, t)
    if st.marks is not None:
        st.marks.append((p, t, n))
    if n < 0:
        raise Ill("negative-" + what)
    return n


def _text(st, n):
    d = bytes(_take(st, n))
    try:
        d.decode("utf-8")
    except UnicodeDecodeError:
        raise Ill("utf8")
    return d


def _container_header(st):
    """After '[' or '{': returns (type or None, count or None)."""
    t = None
    if _peek(st) == 0x24:     # '$'
        st.pos += 1
        t = _byte(st)
        if _peek(st) != 0x23:
            raise Ill("type-without-count")
    if _peek(st) == 0x23:     # '#'
        st.pos += 1
        return t, _length(st, "count")
    return None, None


def _payload(st, t):
    """Value of marker t whose marker byte has been consumed (or is implied by a typed container)."""
    if t == 0x5a:
        return ('null', None, 0)
    if t == 0x54:
        return ('bool', True, 0)
    if t == 0x46:
        return ('bool', False, 0)
    if t == 0x4e:
        st.note("no-op", opaque=True)
        return None
    if t in _INT_W:
        return ('int', _int_payload(st, t), 0, 'u' if t == 0x55 else 'i')
    if t == 0x64:
        return ('dbl', mv.f32_to_f64_bits(int.from_bytes(_take(st, 4), "big")), 0)
    if t == 0x44:
        return ('dbl', int.from_bytes(_take(st, 8), "big"), 0)
    if t == 0x43:
        c = _byte(st)
        if c > 127:
            raise Ill("utf8")
        return ('str', bytes([c]), 0)
    if t == 0x53:
        return ('str', _text(st, _length(st, "length")), 0)
    if t == 0x48:
        d = bytes(_take(st, _length(st, "length")))
        if not _JSON_NUMBER.match(d):
            st.note("high-precision-not-a-number")
            return None
        f = mv._parse_decimal(d)
        if f is None:
            st.note("high-precision-exponent-too-large")
            return None
        return ('num', f, mv.TAG_BIGINT if _BASE10.match(d) else mv.TAG_BIGDEC)
    if t == 0x5b:
        return _array(st)
    if t == 0x7b:
        return _object(st)
    if t == 0x5d or t == 0x7d:
        raise Ill("stray-end-marker")
    raise Ill("unknown-marker")


def _value(st):
    return _payload(st, _byte(st))


def _typed_guard(st, t, count):
    """Returns False if the reference abstains on this typed header."""
    if t not in _VALUE_MARKERS:
        if count == 0:
            st.note("unknown-type-on-empty-container", opaque=True)
            return False
        raise Ill("unknown-marker" if t not in (0x5d, 0x7d) else "stray-end-marker")
    if t in (0x5a, 0x54, 0x46, 0x4e) and count > REF_MAX_COUNT:
        st.note("count-beyond-reference-limit", opaque=True)
        return False
    return True


def _array(st):
    t, count = _container_header(st)
    items = []
    ok = True
    if count is None:
        while True:
            m = _byte(st)
            if m == 0x5d:
                break
            e = _payload(st, m)
            if m == 0x4e:
                continue
            if e is None:
                ok = False
            items.append(e)
    else:
        if t is not None and not _typed_guard(st, t, count):
            return None
        i = 0
        while i < count:
            m = t if t is not None else _byte(st)
            e = _payload(st, m)
            i += 1
            if m == 0x4e:
                ok = False
                continue
            if e is None:
                ok = False
            items.append(e)
    return ('arr', items, 0) if ok else None


def _object(st):
    t, count = _container_header(st)
    items = []
    ok = True
    seen = set()
    if count is not None and t is not None and not _typed_guard(st, t, count):
        return None
    i = 0
    while True:
        if count is None:
            c = _peek(st)
            if c == 0x7d:
                st.pos += 1
                break
            if c == 0x4e:
                st.pos += 1
                st.note("no-op", opaque=True)
                ok = False
                continue
        elif i >= count:
            break
        k = _text(st, _length(st, "key-length"))
        m = t if t is not None else _byte(st)
        v = _payload(st, m)
        i += 1
        if v is None:
            ok = False
        else:
            if k in seen:
                st.note("duplicate-key")
                ok = False
            seen.add(k)
            items.append((k, v))
    return ('obj', items, 0) if ok else None


def decode(data, marks=None):
    st = _St(bytes(data), marks)
    try:
        v = _value(st)
    except Ill as e:
        if st.opaque:
            return ("UNSPEC", st.unspec)
        return ("ILL", e.cls)
    except RecursionError:
        return ("UNSPEC", "nesting-beyond-reference-limit")
    if st.unspec is not None:
        return ("UNSPEC", st.unspec)
    if v is None:
        return ("UNSPEC", "abstained")
    if st.pos != st.n:
        return ("UNSPEC", "trailing-bytes")
    return ("OK", v)


# ---------------------------------------------------------------------------------------------
# encoder: every legal encoding

def _lengths(n, mode="full"):
    out = []
    if n < 128:
        out.append(b"i" + n.to_bytes(1, "big"))
    if n < 256:
        out.append(b"U" + n.to_bytes(1, "big"))
    if n < (1 << 15):
        out.append(b"I" + n.to_bytes(2, "big"))
    if n < (1 << 31):
        out.append(b"l" + n.to_bytes(4, "big"))
    out.append(b"L" + n.to_bytes(8, "big"))
    return out[:1] if mode == "min" else out


_product = mv.product


def _forms(v, mode, limit, child_mode, modes=None, path=()):
    """dict marker byte -> list of payload encodings of v under that marker."""
    if modes is not None:
        mode = modes.get(path, "one")
        child_mode = "one"
    k, d = v[0], v[1]
    out = {}
    if k == 'null':
        out[0x5a] = [b""]
    elif k == 'bool':
        out[0x54 if d else 0x46] = [b""]
    elif k == 'int':
        if -128 <= d <= 127:
            out[0x69] = [d.to_bytes(1, "big", signed=True)]
        if 0 <= d <= 255:
            out[0x55] = [d.to_bytes(1, "big")]
        if -(1 << 15) <= d < (1 << 15):
            out[0x49] = [d.to_bytes(2, "big", signed=True)]
        if -(1 << 31) <= d < (1 << 31):
            out[0x6c] = [d.to_bytes(4, "big", signed=True)]
        if -(1 << 63) <= d < (1 << 63):
            out[0x4c] = [d.to_bytes(8, "big", signed=True)]
        else:
            s = str(d).encode()
            out[0x48] = [l + s for l in _lengths(len(s), "min" if mode in ("min", "one") else "full")]
    elif k == 'dbl':
        f = mv.f64_to_f32_bits(d)
        if f is not None:
            out[0x64] = [f.to_bytes(4, "big")]
        out[0x44] = [d.to_bytes(8, "big")]
    elif k == 'str':
        if len(d) == 1 and d[0] < 128:
            out[0x43] = [d]
        out[0x53] = [l + d for l in _lengths(len(d), "min" if mode in ("min", "one") else "full")]
    elif k == 'hp':
        out[0x48] = [l + d for l in _lengths(len(d), "min" if mode in ("min", "one") else "full")]
    elif k == 'arr':
        out[0x5b] = _array_bodies(d, mode, limit, child_mode, modes, path)
    elif k == 'obj':
        out[0x7b] = _object_bodies(d, mode, limit, child_mode, modes, path)
    else:
        raise ValueError("ref_ubjson cannot encode %r" % (k,))
    if mode in ("min", "one") and k not in ('arr', 'obj'):
        # shortest marker only
        best = min(out.items(), key=lambda kv: (len(kv[1][0]), kv[0]))
        out = {best[0]: best[1][:1]}
    return out


def _grand(child_mode):
    return "reduced" if child_mode == "full" else ("one" if child_mode == "one" else "min")


def _with_marker(forms, limit):
    return [bytes([m]) + p for m, ps in sorted(forms.items()) for p in ps if 1 + len(p) <= limit]


def _array_bodies(items, mode, limit, child_mode, modes=None, path=()):
    forms = [_forms(e, child_mode, limit, _grand(child_mode), modes, path + (i,)) for i, e in enumerate(items)]
    marked = [_with_marker(f, limit) for f in forms]
    out = _product(marked + [[b"]"]], limit)
    if mode == "one":
        return [o for o in out if len(o) <= limit]
    lm = "min" if mode == "min" else "full"
    for l in _lengths(len(items), lm):
        out += _product([[b"#" + l]] + marked, limit)
    common = None
    for f in forms:
        common = set(f) if common is None else common & set(f)
    if common is None:
        # empty array: any value type may be declared; use a few
        common = set() if mode == "min" else {0x5a, 0x69, 0x53, 0x5b}
        for t in sorted(common):
            for l in _lengths(0, lm):
                out.append(b"$" + bytes([t]) + b"#" + l)
    else:
        for t in sorted(common):
            for l in _lengths(len(items), lm):
                out += _product([[b"$" + bytes([t]) + b"#" + l]] + [f[t] for f in forms], limit)
    return [o for o in out if len(o) <= limit]


def _object_bodies(items, mode, limit, child_mode, modes=None, path=()):
    lm = "min" if mode == "min" else "full"
    km = "min" if child_mode in ("min", "one") else "full"
    forms = [_forms(v, child_mode, limit, _grand(child_mode), modes, path + (i, 'v')) for i, (k, v) in enumerate(items)]
    keys = []
    for i, (k, v) in enumerate(items):
        kmode = km if modes is None else ("min" if modes.get(path + (i, 'k'), "one") == "one" else "full")
        keys.append([l + k for l in _lengths(len(k), kmode)])
    marked = [_with_marker(f, limit) for f in forms]
    seq = []
    for kk, mm in zip(keys, marked):
        seq += [kk, mm]
    out = _product(seq + [[b"}"]], limit)
    if mode == "one":
        return [o for o in out if len(o) <= limit]
    for l in _lengths(len(items), lm):
        out += _product([[b"#" + l]] + seq, limit)
    common = None
    for f in forms:
        common = set(f) if common is None else common & set(f)
    if common is None:
        common = set() if mode == "min" else {0x5a, 0x69, 0x53, 0x7b}
        for t in sorted(common):
            for l in _lengths(0, lm):
                out.append(b"$" + bytes([t]) + b"#" + l)
    else:
        for t in sorted(common):
            seq = []
            for kk, f in zip(keys, forms):
                seq += [kk, f[t]]
            for l in _lengths(len(items), lm):
                out += _product([[b"$" + bytes([t]) + b"#" + l]] + seq, limit)
    return [o for o in out if len(o) <= limit]


def encodings(v, mode="full", limit=1 << 30, child_mode=None, modes=None, path=()):
    """Every legal encoding of an encoder-side value: mvtext tuples (no 'bin', no 'half'), integers
    beyond int64 as high-precision numbers, ('hp', ascii, 0) for an explicit high-precision number.
    With `modes` (dict path -> mode, default "one" = shortest marker, plain container): per-node choice
    as in ref_cbor.encodings."""
    if child_mode is None:
        child_mode = "reduced" if mode == "full" else "min"
    for e in _with_marker(_forms(v, mode, limit, child_mode, modes, path), limit):
        yield e


def denote(v):
    k, d, t = v[0], v[1], v[2]
    if k == 'int' and not (-(1 << 63) <= d < (1 << 63)):
        return ('num', Fraction(d), mv.TAG_BIGINT)
    if k == 'hp':
        return ('num', mv._parse_decimal(d), mv.TAG_BIGINT if _BASE10.match(d) else mv.TAG_BIGDEC)
    if k == 'arr':
        return ('arr', [denote(e) for e in d], t)
    if k == 'obj':
        return ('obj', [(kk, denote(vv)) for kk, vv in d], t)
    return v


# ---------------------------------------------------------------------------------------------
# self test: the examples of the specification and round trips

def _i(x):
    return ('int', x, 0)


def _s(x):
    return ('str', x, 0)


def _d(x):
    return ('dbl', mv.f64_bits(x), 0)


def _h(s):
    return s.replace(" ", "")


SPEC_VECTORS = [
    (b"Z", ('null', None, 0)), (b"T", ('bool', True, 0)), (b"F", ('bool', False, 0)),
    (b"i\x10", _i(16)), (b"U\xff", _i(255)), (b"i\xff", _i(-1)), (b"I\x7f\xff", _i(32767)), (b"I\x80\x00", _i(-32768)),
    (b"l\x7f\xff\xff\xff", _i(2147483647)), (b"L\x7f\xff\xff\xff\xff\xff\xff\xff", _i(9223372036854775807)),
    (b"L\x80\x00\x00\x00\x00\x00\x00\x00", _i(-9223372036854775808)),
    (b"d\x3f\xc0\x00\x00", _d(1.5)), (b"D\x3f\xf8\x00\x00\x00\x00\x00\x00", _d(1.5)),
    (b"Ca", _s(b"a")), (b"Si\x05hello", _s(b"hello")), (b"SU\x05hello", _s(b"hello")), (b"SI\x00\x05hello", _s(b"hello")),
    (b"Si\x00", _s(b"")),
    (b"Hi\x033.7", ('num', Fraction(37, 10), mv.TAG_BIGDEC)), (b"Hi\x0212", ('num', Fraction(12), mv.TAG_BIGINT)),
    (b"Hi\x051.5e3", ('num', Fraction(1500), mv.TAG_BIGDEC)),
    (b"[]", ('arr', [], 0)), (b"{}", ('obj', [], 0)),
    (b"[ZTFi\x04Si\x03abc]", ('arr', [('null', None, 0), ('bool', True, 0), ('bool', False, 0), _i(4), _s(b"abc")], 0)),
    (b"[#i\x03i\x01i\x02i\x03", ('arr', [_i(1), _i(2), _i(3)], 0)),
    (b"[$i#i\x03\x01\x02\x03", ('arr', [_i(1), _i(2), _i(3)], 0)),
    (b"[$U#U\x02\xff\x00", ('arr', [_i(255), _i(0)], 0)),
    (b"[$d#i\x02\x3f\xc0\x00\x00\xbf\xc0\x00\x00", ('arr', [_d(1.5), _d(-1.5)], 0)),
    (b"[$Z#I\x00\x03", ('arr', [('null', None, 0)] * 3, 0)),
    (b"[$T#i\x02", ('arr', [('bool', True, 0)] * 2, 0)),
    (b"[$S#i\x02i\x01ai\x00", ('arr', [_s(b"a"), _s(b"")], 0)),
    (b"[$[#i\x02]#i\x01Z", ('arr', [('arr', [], 0), ('arr', [('null', None, 0)], 0)], 0)),
    (b"[[][]]", ('arr', [('arr', [], 0), ('arr', [], 0)], 0)),
    (b"{i\x03lati\x1di\x04longi\x1f}", ('obj', [(b"lat", _i(29)), (b"long", _i(31))], 0)),
    (b"{#i\x01i\x01aZ", ('obj', [(b"a", ('null', None, 0))], 0)),
    (b"{$i#i\x02i\x01a\x01i\x01b\x02", ('obj', [(b"a", _i(1)), (b"b", _i(2))], 0)),
    (b"{U\x01a[$Z#i\x01}", ('obj', [(b"a", ('arr', [('null', None, 0)], 0))], 0)),
]
SPEC_ILL = [b"", b"i", b"I\x00", b"l\x00\x00\x00", b"L", b"d\x00", b"D", b"C", b"S", b"Si", b"Si\x02a", b"SZ", b"Sd\x00\x00\x00\x00",
            b"Si\xff", b"SI\xff\xff", b"H", b"Hi\x02" + b"1", b"[", b"[i\x01", b"{", b"{i\x01a", b"{i\x01aZ", b"[#", b"[#i", b"[#i\x02Z",
            b"[$", b"[$i", b"[$i]", b"[$iZ", b"[$i#", b"[$i#i\x02\x01", b"[#i\xff", b"{#i\x01", b"{$Z#i\x01", b"{$Z#i\x01i\x01",
            b"]", b"}", b"X", b"\x00", b"[X]", b"[$X#i\x01", b"C\x80", b"Si\x01\xff", b"{i\x01\xffZ}", b"[}", b"{Z}", b"{Si\x01aZ}",
            b"Si\x02\xc3\x28", b"[#Z"]
SPEC_UNSPEC = [b"ZZ", b"N", b"NZ", b"[N]", b"[#i\x01N", b"[$N#i\x02", b"{N}", b"{i\x01aZi\x01aT}", b"Hi\x03abc", b"Hi\x0200",
               b"[$X#i\x00", b"[$Z#l\x7f\xff\xff\xff", b"[]]"]


def selftest(values=()):
    errs = []
    for raw, want in SPEC_VECTORS:
        got = decode(raw)
        if got[0] != "OK" or not mv.same(want, got[1]):
            errs.append("ubjson vector %r: want %r got %r" % (raw, want, got))
    for raw in SPEC_ILL:
        got = decode(raw)
        if got[0] != "ILL":
            errs.append("ubjson ill-formed vector %r: got %r" % (raw, got))
    for raw in SPEC_UNSPEC:
        got = decode(raw)
        if got[0] != "UNSPEC":
            errs.append("ubjson vector %r: want UNSPEC got %r" % (raw, got))
    for v in values:
        want = denote(v)
        for e in encodings(v, "full", 64):
            got = decode(e)
            if got[0] != "OK" or not mv.same(want, got[1]):
                errs.append("ubjson round trip %r via %r: got %r" % (v, e, got))
                if len(errs) > 20:
                    return errs
    return errs
