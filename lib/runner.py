"""Parallel slice driver, violation bookkeeping, evidence and known findings.

Harness line protocol on stdout (tab separated):
  V <sig> <detail>     a violation; <sig> is a self-contained, replayable case id
  S <key> <int>        counter, summed over slices
  M <key> <int>        gauge, max over slices
  N <key>              member of the set of distinct outcome classes
  X <text>             a sample case
  E <text>             harness error (never a violation): aborts the check with exit 2
"""
import json, os, random, re, subprocess, sys, time, hashlib
from concurrent.futures import ThreadPoolExecutor

VERIF = os.path.dirname(os.path.dirname(os.path.abspath(__file__)))
# evidence/ and replay/ normally live in /verif; runs against a scratch tree (seeded changes) redirect them
OUTDIR = os.environ.get("VERIF_OUT", VERIF)
NCPU = int(os.environ.get("VERIF_JOBS", os.cpu_count() or 4))


class Result:
    def __init__(self):
        self.viol = {}      # sig -> detail
        self.sum = {}
        self.max = {}
        self.sets = set()
        self.samples = []
        self.errors = []
        self.nviol_total = 0
        self.crashes = {}   # sig -> (cmd, env, timeout): harness processes that died while running the real code

    def feed(self, text):
        for line in text.splitlines():
            if not line:
                continue
            p = line.split("\t")
            t = p[0]
            if t == "V" and len(p) >= 2:
                self.nviol_total += 1
                if p[1] not in self.viol:
                    self.viol[p[1]] = p[2] if len(p) > 2 else ""
            elif t == "S" and len(p) == 3:
                self.sum[p[1]] = self.sum.get(p[1], 0) + int(p[2])
            elif t == "M" and len(p) == 3:
                self.max[p[1]] = max(self.max.get(p[1], 0), int(p[2]))
            elif t == "N" and len(p) >= 2:
                self.sets.add(p[1])
            elif t == "X" and len(p) >= 2:
                self.samples.append("\t".join(p[1:]))
            elif t == "E":
                self.errors.append("\t".join(p[1:]))

    def merge(self, o):
        self.nviol_total += o.nviol_total
        for k, v in o.viol.items():
            self.viol.setdefault(k, v)
        for k, v in o.sum.items():
            self.sum[k] = self.sum.get(k, 0) + v
        for k, v in o.max.items():
            self.max[k] = max(self.max.get(k, 0), v)
        self.sets |= o.sets
        self.samples += o.samples
        self.errors += o.errors
        self.crashes.update(o.crashes)


def run_cmd(cmd, timeout=None, env=None, stdin=None):
    e = dict(os.environ)
    e.setdefault("LC_ALL", "C")
    if env:
        e.update(env)
    try:
        r = subprocess.run(cmd, stdout=subprocess.PIPE, stderr=subprocess.PIPE, timeout=timeout, env=e, input=stdin)
        return r.returncode, r.stdout.decode(errors="replace"), r.stderr.decode(errors="replace")
    except subprocess.TimeoutExpired as ex:
        return -999, (ex.stdout or b"").decode(errors="replace"), "TIMEOUT"


def crash_kind(rc, err):
    """Classify an abnormal exit of a harness process; None = not attributable to the code under test."""
    if rc == -999:
        return "timeout"
    if "AddressSanitizer" in err or "LeakSanitizer" in err or "runtime error:" in err or "ThreadSanitizer" in err:
        return "sanitizer"
    if rc < 0:
        return "signal%d" % (-rc)
    if "terminate called" in err:
        return "terminate"
    return None


def crash_summary(err):
    for l in err.splitlines():
        if "SUMMARY:" in l or "runtime error:" in l or "terminate called" in l or "what():" in l:
            return l.strip()[:400]
    return err.strip()[-300:].replace("\n", " ")


def replay_crash(cmd, env, timeout):
    rc, out, err = run_cmd(cmd, timeout=(timeout * 2 if timeout else None), env=env)
    k = crash_kind(rc, err) if rc != 0 else None
    return (k is not None), (k or "")


def run_slices(binary, args, nslices=None, timeout=None, env=None, jobs=None):
    """Run `binary args... <i> <n>` for every slice i in parallel, merge the output."""
    nslices = nslices or NCPU
    res = Result()

    def one(i):
        cmd = [binary] + list(args) + [str(i), str(nslices)]
        rc, out, err = run_cmd(cmd, timeout=timeout, env=env)
        if rc == -9:
            # SIGKILL never comes from the harness or the library: the kernel's out-of-memory killer or an operator.  Run the
            # slice again, alone in this worker, before drawing any conclusion
            time.sleep(5)
            rc, out, err = run_cmd(cmd, timeout=timeout, env=env)
        r = Result()
        r.feed(out)
        if rc != 0:
            kind = crash_kind(rc, err)
            if kind is None:
                r.errors.append("slice %d of %s %s exited %s: %s" % (i, os.path.basename(binary), " ".join(args), rc, err[-2000:]))
            else:
                # the process died while executing the real code (sanitizer abort, signal, hang): that is an observation about
                # the code under test, reported as a violation (and replayed like any other) rather than as a harness error
                sig = "CRASH|%s|%s|%d/%d|%s" % (os.path.basename(binary), " ".join(args), i, nslices, kind)
                r.viol[sig] = "the harness process died while executing the library code (%s): %s" % (kind, crash_summary(err))
                r.crashes[sig] = (cmd, env, timeout)
                r.sum["slices_lost_to_crash"] = 1
        return r

    with ThreadPoolExecutor(max_workers=jobs or NCPU) as ex:
        for r in ex.map(one, range(nslices)):
            res.merge(r)
    return res


# ----------------------------------------------------------------------------

def load_findings(prop):
    path = os.path.join(VERIF, "known_findings.json")
    if not os.path.exists(path):
        return []
    with open(path) as fh:
        data = json.load(fh)
    return [f for f in data.get("findings", []) if f.get("property") == prop]


class Check:
    """One run of one property's check.  Collects results from several stages and
    finishes by writing evidence and printing the verdict lines."""

    def __init__(self, prop, tier, level):
        self.prop = prop
        self.tier = tier
        self.level = level
        self.seed = int(os.environ.get("VERIF_SEED", "0") or 0)
        self.t0 = time.time()
        self.res = Result()
        self.replayers = {}   # sig prefix -> callable(sig) -> (reproduced: bool, detail)
        self.rule = ""
        self.assumptions = []
        self.extra = {}
        self.exhaustive = True
        self.deadline = self.t0 + float(os.environ.get("VERIF_DEADLINE_S", "1500" if tier == "quick" else "7200"))

    def time_left(self):
        return self.deadline - time.time()

    def add(self, r):
        self.res.merge(r)

    def finish(self, replay_fn=None):
        r = self.res
        if r.errors:
            for e in r.errors[:20]:
                sys.stderr.write("HARNESS-ERROR property=%s %s\n" % (self.prop, e))
            self._write_evidence(0, broken=True)
            sys.exit(2)
        findings = load_findings(self.prop)
        known_hit = {}
        fresh = []
        for sig in sorted(r.viol):
            hit = None
            for f in findings:
                if f.get("status") != "open":
                    continue
                if re.search(f["match"], sig):
                    hit = f
                    break
            if hit is not None:
                known_hit.setdefault(hit["id"], (hit, sig))
            else:
                fresh.append(sig)
        # replay-before-report: every fresh violation (up to a cap) must reproduce twice
        reported = []
        cap = 10
        for sig in fresh[:cap]:
            if sig in r.crashes:
                self.exhaustive = False
                a = replay_crash(*r.crashes[sig])
                b = replay_crash(*r.crashes[sig])
                if a != b or not a[0]:
                    sys.stderr.write("HARNESS-ERROR property=%s harness crash did not replay deterministically: %s (%r vs %r)\n" % (self.prop, sig, a, b))
                    self._write_evidence(0, broken=True)
                    sys.exit(2)
            elif replay_fn is not None:
                a = replay_fn(sig)
                b = replay_fn(sig)
                if a != b or not a[0]:
                    sys.stderr.write("HARNESS-ERROR property=%s violation did not replay deterministically: %s (%r vs %r)\n" % (self.prop, sig, a, b))
                    self._write_evidence(0, broken=True)
                    sys.exit(2)
            reported.append(sig)
        os.makedirs(os.path.join(OUTDIR, "replay", self.prop), exist_ok=True)
        lines = []
        for sig in reported:
            name = hashlib.sha1(sig.encode()).hexdigest()[:16] + ".json"
            path = os.path.join(OUTDIR, "replay", self.prop, name)
            with open(path, "w") as fh:
                rec = {"property": self.prop, "sig": sig, "detail": r.viol[sig],
                       "replay": "python3 /verif/check.py %s --replay %s" % (self.prop, path)}
                if sig in r.crashes:
                    cmd, env, timeout = r.crashes[sig]
                    rec["crash"] = {"binary": os.path.basename(cmd[0]), "args": cmd[1:], "env": env or {}, "timeout": timeout}
                json.dump(rec, fh, indent=1)
            lines.append("VIOLATION property=%s replay=%s" % (self.prop, path))
            sys.stderr.write("  violation %s :: %s\n" % (sig, r.viol[sig][:400]))
        if len(fresh) > cap:
            sys.stderr.write("  ... and %d more distinct violating cases\n" % (len(fresh) - cap))
            # summary by signature class (first two fields + last field), so that every kind of failure is visible
            classes = {}
            for sig in fresh:
                p = sig.split("|")
                k = "|".join(p[:2]) + " ... " + (p[-1] if len(p) > 3 else "")
                classes.setdefault(k, [0, sig])
                classes[k][0] += 1
            for k, (n, ex) in sorted(classes.items(), key=lambda kv: -kv[1][0])[:40]:
                sys.stderr.write("  class %-60s %6d  e.g. %s :: %s\n" % (k[:60], n, ex[:120], r.viol[ex][:160]))
        for fid, (f, sig) in sorted(known_hit.items()):
            print("KNOWN-FINDING: property=%s %s [%s] (e.g. %s)" % (self.prop, f["what"], fid, sig[:160]))
        self._write_evidence(len(fresh), known=len(known_hit))
        for l in lines:
            print(l)
        sys.stdout.flush()
        sys.exit(1 if fresh else 0)

    def _write_evidence(self, nviol, known=0, broken=False):
        r = self.res
        rnd = random.Random(self.seed)
        samples = list(r.samples)
        if len(samples) > 12:
            samples = rnd.sample(samples, 12)
        if not samples:
            samples = ["(harness emitted no sample lines) outcome classes: " + ", ".join(sorted(r.sets)[:20])]
        cov = {
            "evaluations": int(r.sum.get("evaluations", 0)),
            "distinct_nontrivial": int(r.sum.get("nontrivial", 0)),
            "rule": self.rule,
            "samples": samples,
            "exhaustive": bool(self.exhaustive and not broken),
            "distinct_outcome_classes": len(r.sets),
            "outcome_classes": sorted(r.sets)[:200],
            "counters": {k: v for k, v in sorted(r.sum.items())},
            "gauges": {k: v for k, v in sorted(r.max.items())},
        }
        if self.level == "model_checking":
            cov["states"] = int(r.sum.get("states", 0))
            cov["transitions"] = int(r.sum.get("transitions", 0))
            cov["traces_validated_against_impl"] = int(r.sum.get("traces_validated", r.sum.get("transitions", 0)))
        cov.update(self.extra)
        ev = {
            "property_id": self.prop, "tier": self.tier, "seed": self.seed, "level": self.level,
            "coverage": cov, "assumptions": self.assumptions,
            "wall_s": round(time.time() - self.t0, 2), "violations": int(nviol),
            "known_findings_reproduced": int(known),
        }
        if broken:
            ev["harness_error"] = True
        os.makedirs(os.path.join(OUTDIR, "evidence"), exist_ok=True)
        path = os.path.join(OUTDIR, "evidence", self.prop + ".json")
        tmp = path + ".tmp%d" % os.getpid()
        with open(tmp, "w") as fh:
            json.dump(ev, fh, indent=1)
        os.replace(tmp, path)
