#!/usr/bin/env python3
"""Confirm seeded changes independently of the agent that wrote them.

  tools/confirm_seeded.py <builddir-root> [name ...]

For every /verif/seeded/<name>/ : in a scratch worktree of /repo (created under <builddir-root>, which must be outside
/repo and /verif; a Release build of the unit tests is kept there between changes so rebuilds are incremental)
  1. demo.cpp compiled against the clean tree exits 0,
  2. patch.diff applies, demo.cpp compiled against the changed tree exits 1,
  3. the repository's unit-test suite builds (-Werror -Wall -Wextra) and passes with the change.
Writes /verif/seeded/<name>/confirm.json.  Remove <builddir-root> afterwards (tools/confirm_seeded.py --cleanup <root>).
"""
import json, os, shutil, subprocess, sys, time

VERIF = os.path.dirname(os.path.dirname(os.path.abspath(__file__)))
SEEDED = os.path.join(VERIF, "seeded")
JOBS = os.environ.get("CONFIRM_JOBS", "8")


def sh(cmd, **kw):
    return subprocess.run(cmd, capture_output=True, text=True, **kw)


def demo(wt, d, out):
    r = sh(["g++", "-std=c++17", "-O1", "-w", "-pthread", "-I", os.path.join(wt, "include"), os.path.join(d, "demo.cpp"), "-o", out])
    if r.returncode != 0:
        return None, r.stderr[-800:]
    try:
        p = sh([out], timeout=300)
        return p.returncode, (p.stdout + p.stderr)[-600:]
    except subprocess.TimeoutExpired:
        return 124, "timeout"


def main():
    args = sys.argv[1:]
    if args and args[0] == "--cleanup":
        root = args[1]
        sh(["git", "-C", "/repo", "worktree", "remove", "--force", os.path.join(root, "wt")])
        shutil.rmtree(root, ignore_errors=True)
        return
    root = args[0]
    names = args[1:] or sorted(os.listdir(SEEDED))
    wt = os.path.join(root, "wt")
    bd = os.path.join(root, "build")
    os.makedirs(root, exist_ok=True)
    if not os.path.exists(wt):
        r = sh(["git", "-C", "/repo", "worktree", "add", "--detach", wt, "HEAD"])
        assert r.returncode == 0, r.stderr
    sh(["git", "-C", wt, "checkout", "--detach", sh(["git", "-C", "/repo", "rev-parse", "HEAD"]).stdout.strip()])
    if not os.path.exists(os.path.join(bd, "build.ninja")):
        r = sh(["cmake", "-G", "Ninja", "-S", wt, "-B", bd, "-DJSONCONS_BUILD_TESTS=ON", "-DCMAKE_BUILD_TYPE=Release", "-DCMAKE_CXX_FLAGS=-O0"])
        assert r.returncode == 0, r.stderr[-2000:]
    for name in names:
        d = os.path.join(SEEDED, name)
        if not os.path.exists(os.path.join(d, "patch.diff")):
            continue
        if os.path.exists(os.path.join(d, "confirm.json")) and not os.environ.get("CONFIRM_FORCE"):
            continue
        t0 = time.time()
        res = {"repo_head": sh(["git", "-C", wt, "rev-parse", "--short", "HEAD"]).stdout.strip()}
        sh(["git", "-C", wt, "checkout", "--", "."])
        res["demo_clean_exit"], res["demo_clean_tail"] = demo(wt, d, os.path.join(root, "demo_clean"))
        r = sh(["git", "-C", wt, "apply", os.path.join(d, "patch.diff")])
        res["applies"] = r.returncode == 0
        if r.returncode == 0:
            res["demo_changed_exit"], res["demo_changed_tail"] = demo(wt, d, os.path.join(root, "demo_changed"))
            b = sh(["nice", "-n", "5", "cmake", "--build", bd, "-j", JOBS])
            res["tests_build_ok"] = b.returncode == 0
            if b.returncode == 0:
                t = sh(["ctest", "--test-dir", bd, "-j", JOBS, "--timeout", "1800"])
                res["tests_pass"] = t.returncode == 0 and "100% tests passed" in t.stdout
                res["ctest_tail"] = t.stdout[-300:]
            else:
                res["tests_pass"] = False
                res["build_tail"] = (b.stdout + b.stderr)[-1500:]
        sh(["git", "-C", wt, "checkout", "--", "."])
        res["confirmed"] = bool(res.get("applies") and res.get("demo_clean_exit") == 0 and res.get("demo_changed_exit") == 1 and res.get("tests_pass"))
        res["wall_s"] = round(time.time() - t0)
        json.dump(res, open(os.path.join(d, "confirm.json"), "w"), indent=1, sort_keys=True)
        print("%-12s confirmed=%s clean=%s changed=%s tests=%s (%ds)" % (name, res["confirmed"], res.get("demo_clean_exit"), res.get("demo_changed_exit"), res.get("tests_pass"), res["wall_s"]))
        sys.stdout.flush()


if __name__ == "__main__":
    main()
