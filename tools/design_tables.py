#!/usr/bin/env python3
"""Regenerate the generated tables of DESIGN.md (between <!-- X-BEGIN --> / <!-- X-END --> markers):
FINDINGS (from known_findings.json) and SEEDED (from seeded/*)."""
import json, os, re, subprocess, sys
VERIF = os.path.dirname(os.path.dirname(os.path.abspath(__file__)))

def findings_table():
    d = json.load(open(os.path.join(VERIF, "known_findings.json")))
    out = ["| id | prop | status | what |", "|---|---|---|---|"]
    for f in d["findings"]:
        w = f["what"]
        if w.startswith("fixed: "):
            w = w.split(" ", 3)[3]
        w = w.replace("|", "\\|").replace("\n", " ")
        out.append("| %s | %s | %s | %s |" % (f["id"], f["property"], ("fixed " + f.get("commit", "")) if f["status"] == "fixed" else "open", w[:320]))
    nfix = sum(1 for f in d["findings"] if f["status"] == "fixed")
    out.append("")
    out.append("%d defects repaired by `fix:` commits, %d recorded as open findings." % (nfix, len(d["findings"]) - nfix))
    return "\n".join(out)

def seeded_table():
    return subprocess.run([sys.executable, os.path.join(VERIF, "tools", "seeded_table.py")], capture_output=True, text=True).stdout.rstrip("\n")

def main():
    p = os.path.join(VERIF, "DESIGN.md")
    s = open(p).read()
    for name, fn in (("FINDINGS", findings_table), ("SEEDED", seeded_table)):
        b, e = "<!-- %s-BEGIN -->" % name, "<!-- %s-END -->" % name
        if b in s and e in s:
            i, j = s.index(b) + len(b), s.index(e)
            s = s[:i] + "\n" + fn() + "\n" + s[j:]
    open(p, "w").write(s)

if __name__ == "__main__":
    main()
