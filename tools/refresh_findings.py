#!/usr/bin/env python3
"""After history in /repo was rewritten (a fix commit dropped or amended), re-point the 'fixed' entries of
known_findings.json at the commits that now carry the same subject line."""
import json, subprocess, sys
P = '/verif/known_findings.json'
d = json.load(open(P))
head = {}
for l in subprocess.run(['git', '-C', '/repo', 'log', '--format=%h\t%s'], capture_output=True, text=True).stdout.splitlines():
    h, s = l.split('\t', 1)
    head[s] = h
changed = 0
for f in d['findings']:
    if f.get('status') != 'fixed':
        continue
    old = f.get('commit', '')
    r = subprocess.run(['git', '-C', '/repo', 'show', '-s', '--format=%s', old], capture_output=True, text=True)
    if r.returncode != 0:
        print('cannot resolve', f['id'], old); continue
    subj = r.stdout.strip()
    new = head.get(subj)
    if not new:
        print('NOT IN HISTORY:', f['id'], old, subj); continue
    if new != old:
        f['commit'] = new
        f['what'] = f['what'].replace(old, new)
        changed += 1
json.dump(d, open(P, 'w'), indent=1)
print('updated', changed)
