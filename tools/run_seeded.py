#!/usr/bin/env python3
"""Run checks against the seeded property-breaking changes kept under /verif/seeded/<name>/.

  tools/run_seeded.py [--tier quick|thorough] [--checks C01,C05 | --own] [name ...]

Each change is applied to a scratch worktree of /repo under a fresh temporary directory (never to /repo itself); the
checks run with VERIF_REPO pointing at it and VERIF_OUT pointing at a scratch output directory, so /verif/evidence
is not touched.  A change counts as caught by a check when the check exits 1 and prints a VIOLATION line.
Results are written to /verif/seeded/<name>/result.json and summarised on stdout.
"""
import json, os, shutil, subprocess, sys, tempfile, time

VERIF = os.path.dirname(os.path.dirname(os.path.abspath(__file__)))
SEEDED = os.path.join(VERIF, "seeded")


def main():
    args = sys.argv[1:]
    tier = "quick"
    checks = None
    names = []
    while args:
        a = args.pop(0)
        if a == "--tier":
            tier = args.pop(0)
        elif a == "--checks":
            checks = args.pop(0).split(",")
        elif a == "--own":
            checks = None
        else:
            names.append(a)
    if not names:
        names = sorted(d for d in os.listdir(SEEDED) if os.path.exists(os.path.join(SEEDED, d, "patch.diff")))
    claimed = {c["property_id"] for c in json.load(open(os.path.join(VERIF, "MANIFEST.json")))["checks"]}
    tmp = tempfile.mkdtemp(prefix="seedrun_")
    wt = os.path.join(tmp, "wt")
    subprocess.run(["git", "-C", "/repo", "worktree", "add", "--detach", wt, "HEAD"], check=True, capture_output=True)
    rc_all = 0
    try:
        for name in names:
            d = os.path.join(SEEDED, name)
            meta = json.load(open(os.path.join(d, "meta.json")))
            todo = checks or [meta["property"]]
            subprocess.run(["git", "-C", wt, "checkout", "--", "."], check=True)
            r = subprocess.run(["git", "-C", wt, "apply", os.path.join(d, "patch.diff")], capture_output=True, text=True)
            if r.returncode != 0:
                print("%-28s PATCH DOES NOT APPLY: %s" % (name, r.stderr.strip()[:200]))
                rc_all = 2
                continue
            res = {"tier": tier, "checks": {}}
            for c in todo:
                if c not in claimed:
                    res["checks"][c] = {"status": "not-claimed"}
                    continue
                out = os.path.join(tmp, "out")
                shutil.rmtree(out, ignore_errors=True)
                env = dict(os.environ, VERIF_REPO=wt, VERIF_OUT=out)
                t0 = time.time()
                p = subprocess.run([sys.executable, os.path.join(VERIF, "check.py"), c, tier], env=env, capture_output=True, text=True)
                viol = [l for l in p.stdout.splitlines() if l.startswith("VIOLATION")]
                detail = [l.strip() for l in p.stderr.splitlines() if l.strip().startswith("violation ")][:3]
                status = "caught" if (p.returncode == 1 and viol) else ("missed" if p.returncode == 0 else "harness-error rc=%d" % p.returncode)
                res["checks"][c] = {"status": status, "violations": len(viol), "wall_s": round(time.time() - t0, 1), "first": [x[:300] for x in detail]}
                if status.startswith("harness"):
                    res["checks"][c]["stderr_tail"] = p.stderr[-1500:]
                print("%-28s %s %-8s %s (%d violation lines, %.0fs)" % (name, c, tier, status, len(viol), time.time() - t0))
                sys.stdout.flush()
            # merge with earlier results for other tiers/checks
            rp = os.path.join(d, "result.json")
            old = json.load(open(rp)) if os.path.exists(rp) else {}
            old.setdefault(tier, {}).update(res["checks"])
            json.dump(old, open(rp, "w"), indent=1, sort_keys=True)
    finally:
        subprocess.run(["git", "-C", "/repo", "worktree", "remove", "--force", wt], capture_output=True)
        shutil.rmtree(tmp, ignore_errors=True)
    sys.exit(rc_all)


if __name__ == "__main__":
    main()
