#!/usr/bin/env python3
"""Print the markdown table of seeded changes (DESIGN.md §10) from /verif/seeded/*/{meta,result,confirm}.json."""
import json, os

VERIF = os.path.dirname(os.path.dirname(os.path.abspath(__file__)))
S = os.path.join(VERIF, "seeded")


def load(p):
    try:
        return json.load(open(p))
    except Exception:
        return {}


def main():
    print("| change | what was changed (one file under include/) | manifests only when | confirmed (demo 0/1, unit tests pass) | caught by |")
    print("|---|---|---|---|---|")
    for name in sorted(os.listdir(S)):
        d = os.path.join(S, name)
        if not os.path.exists(os.path.join(d, "patch.diff")):
            continue
        m, r, c = load(os.path.join(d, "meta.json")), load(os.path.join(d, "result.json")), load(os.path.join(d, "confirm.json"))
        caught = []
        missed = []
        for tier in ("quick", "thorough"):
            for chk, v in sorted(r.get(tier, {}).items()):
                if v.get("status") == "caught":
                    caught.append("%s %s" % (chk, tier))
                elif v.get("status") == "missed":
                    missed.append("%s %s" % (chk, tier))
        note = load(os.path.join(d, "note.json")).get("note", "")
        conf = "yes" if c.get("confirmed") else ("no: " + json.dumps({k: c.get(k) for k in ("applies", "demo_clean_exit", "demo_changed_exit", "tests_pass")}) if c else "pending")
        cell = ", ".join(caught) if caught else "**not caught**"
        if missed and caught:
            cell += " (not by: " + ", ".join(missed) + ")"
        if note:
            cell += " — " + note
        esc = lambda t: str(t).replace("|", "\\|").replace("\n", " ")
        print("| %s | %s | %s | %s | %s |" % (name, esc(m.get("summary", ""))[:330], esc(m.get("manifests_when", ""))[:330], conf, cell))


if __name__ == "__main__":
    main()
